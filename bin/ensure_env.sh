#!/bin/bash
# Creates /verif/.venv (offline): /venv's python + its site-packages + crosshair-tool/z3 from the wheelhouse.
set -e
V=/verif/.venv
if [ -x "$V/bin/python" ] && "$V/bin/python" -c "import crosshair, z3, sympy" 2>/dev/null; then exit 0; fi
exec 9>/verif/.venv.lock
flock 9
if [ -x "$V/bin/python" ] && "$V/bin/python" -c "import crosshair, z3, sympy" 2>/dev/null; then exit 0; fi
rm -rf "$V"
/venv/bin/python -m venv "$V"
SP=$("$V/bin/python" -c "import sysconfig; print(sysconfig.get_paths()['purelib'])")
echo "import site; site.addsitedir('/venv/lib/python3.12/site-packages')" > "$SP/_base.pth"
PIP_NO_INDEX=1 "$V/bin/pip" install -q --no-index --find-links /opt/veriftools/wheels crosshair-tool >&2
"$V/bin/python" -c "import crosshair, z3, sympy"
