import itertools, warnings, functools, operator
warnings.filterwarnings("ignore")
from vyxal.elements import *
from vyxal.context import Context
from vyxal.LazyList import LazyList
ctx=Context()
def F(x):
    if isinstance(x,(list,LazyList)): return [F(y) for y in x]
    return x
def first_occ(a):
    o=[]
    for x in a:
        if x not in o: o.append(x)
    return o
LAWS={
 "sort": lambda a: F(vy_sort(a,ctx))==sorted(a),
 "reverse_invol": lambda a: F(reverse(reverse(list(a),ctx),ctx))==a,
 "reverse": lambda a: F(reverse(list(a),ctx))==a[::-1],
 "uniquify": lambda a: F(uniquify(a,ctx))==first_occ(a),
 "sum": lambda a: vy_sum(a,ctx)==sum(a),
 "product": lambda a: (product(a,ctx)==functools.reduce(operator.mul,a,1)) if a else product(a,ctx)==0,
 "max": lambda a: (monadic_maximum(a,ctx)==max(a)) if a else F(monadic_maximum(a,ctx))==[],
 "min": lambda a: (monadic_minimum(a,ctx)==min(a)) if a else F(monadic_minimum(a,ctx))==[],
 "cumsum": lambda a: F(cumulative_sum(a,ctx))==list(itertools.accumulate(a)) if a else True,
 "deltas": lambda a: F(deltas(a,ctx))==[a[i+1]-a[i] for i in range(len(a)-1)],
 "prefixes": lambda a: F(prefixes(a,ctx))==[a[:i+1] for i in range(len(a))],
 "sublists_count": lambda a: len(F(sublists(a,ctx)))==len(a)*(len(a)+1)//2,
 "sublists_set": lambda a: sorted(map(tuple,F(sublists(a,ctx))))==sorted(tuple(a[i:j]) for i in range(len(a)) for j in range(i+1,len(a)+1)),
 "powerset": lambda a: sorted(map(tuple,F(powerset(a,ctx))))==sorted(tuple(c) for r in range(len(a)+1) for c in itertools.combinations(a,r)),
 "permutations": lambda a: F(permutations(a,ctx))==[list(p) for p in itertools.permutations(a)],
 "counts": lambda a: F(counts(a,ctx))==[[x,a.count(x)] for x in first_occ(a)],
 "group_consecutive": lambda a: F(group_consecutive(a,ctx))==[list(g) for _,g in itertools.groupby(a)],
 "grade_up": lambda a: F(grade_up(a,ctx))==sorted(range(len(a)), key=lambda i:a[i]),
 "grade_down": lambda a: F(grade_down(a,ctx))==sorted(range(len(a)), key=lambda i:a[i], reverse=True),
 "flatten_wrap": lambda a: F(deep_flatten(wrap(a,2,ctx),ctx))==a,
 "wrap_chunks": lambda a: F(wrap(a,2,ctx))==[a[i:i+2] for i in range(0,len(a),2)],
 "head_tail": lambda a: (head(a,ctx)==a[0] and tail(a,ctx)==a[-1]) if a else (head(a,ctx)==0 and tail(a,ctx)==0),
 "uninterleave": lambda a: F(uninterleave(a,ctx))==[a[::2],a[1::2]],
 "interleave_inv": lambda a: F(interleave(a[::2],a[1::2],ctx))==a,
 "zip_self": lambda a: F(vy_zip(a,a,ctx))==[[x,x] for x in a],
 "contains": lambda a: all(contains(a,v,ctx)==int(v in a) for v in range(-2,4)),
 "count_item": lambda a: all(count_item(a,v,ctx)==a.count(v) for v in range(-2,4)),
 "length": lambda a: length(a,ctx)==len(a),
 "all_equal": lambda a: all_equal(a,ctx)==int(len(set(a))<=1),
 "cartesian": lambda a: sorted(map(tuple,F(cartesian_product(a,a[:2],ctx))))==sorted((x,y) for x in a for y in a[:2]),
 "transpose_rect": lambda a: F(transpose([a,a],ctx=ctx))==[[x,x] for x in a],
 "merge": lambda a: F(merge(a,a[::-1],ctx))==a+a[::-1],
 "remove": lambda a: all(F(remove(a,v,ctx))==[x for x in a if x!=v] for v in range(-2,4)),
 "find": lambda a: all(find(a,v,ctx)==(a.index(v) if v in a else -1) for v in range(-2,4)),
 "truthy_idx": lambda a: F(truthy_indices(a,ctx))==[i for i,x in enumerate(a) if x],
 "any_all": lambda a: any_true(a,ctx)==int(any(a)) and all_true(a,ctx)==int(all(a)),
 "mode_median": lambda a: True,
 "sum_vec": lambda a: F(vectorised_sum([a,a],ctx))==[sum(a),sum(a)],
 "sort_by_fn": lambda a: True,
 "union": lambda a: F(union(a,a[::-1],ctx))==first_occ(a+a[::-1]),
 "symdiff": lambda a: F(symmetric_difference(a,a[:1],ctx))==[x for x in first_occ(a) if x not in a[:1]],
 "palindromise": lambda a: F(palindromise(a,ctx))==a+a[:-1][::-1],
 "head_remove": lambda a: F(head_remove(a,ctx))==a[1:],
 "tail_remove": lambda a: F(tail_remove(a,ctx))==a[:-1],
 "prepend": lambda a: F(prepend(a,7,ctx))==[7]+a,
 "enumerate": lambda a: F(vy_enumerate(a,ctx))==[[i,x] for i,x in enumerate(a)],
}
fails={}
for n in range(0,5):
    for t in itertools.product(range(-2,4),repeat=n):
        a=list(t)
        for name,law in LAWS.items():
            if name in fails: continue
            try:
                ok=law(list(a))
            except Exception as e:
                ok="EXC %s %s"%(type(e).__name__, str(e)[:50])
            if ok is not True:
                fails[name]=(a,ok)
print(len(LAWS),"laws; failing:",len(fails))
for k,v in fails.items(): print("  ",k,v)
