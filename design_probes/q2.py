from typing import List
from crosshair.tracers import NoTracing
import vyxal.elements as E, vyxal.helpers as H, vyxal.main as M, vyxal.transpile as T, vyxal.LazyList as LL
from vyxal.elements import *
from vyxal.context import Context
from vyxal.LazyList import LazyList
from vyxal.lexer import tokenise, Token, TokenType
from vyxal.parse import parse
from vyxal.structure import Structure
import ast as _ast

def shapev(x):
    if isinstance(x, Token):
        return ("T", x.name.value, x.value)
    if isinstance(x, Structure):
        return (type(x).__name__, getattr(x, "modifier", None), tuple(shapev(b) for b in x.branches))
    if isinstance(x, (list, tuple)):
        return tuple(shapev(b) for b in x)
    if isinstance(x, type):
        return x.__name__
    return x

CLOSERS = "`;)}]"   # trailing closers of the skeleton below, in order
def c04_trunc(k: int, e1: str, e2: str, p: str) -> bool:
    """
    pre: 0 <= k <= 5
    pre: len(e1) == 1 and len(e2) == 1 and len(p) <= 2
    pre: e1 not in "[({@λƛ'µ⟨])};⟩| |Xxv⁽&~ßƒɖ₌‡₍≬0123456789.°\\\\`»«‛→←#k∆øÞ¨⁺" and e2 not in "[({@λƛ'µ⟨])};⟩| |Xxv⁽&~ßƒɖ₌‡₍≬0123456789.°\\\\`»«‛→←#k∆øÞ¨⁺"
    pre: "`" not in p and chr(92) not in p and "|" not in p
    post: _
    """
    closed = "[" + e1 + "|{" + e2 + "(λ`" + p + CLOSERS
    trunc = closed[: len(closed) - k]
    return shapev(parse(tokenise(trunc))) == shapev(parse(tokenise(closed)))

BASE_NS = {k: v for k, v in vars(T).items()}
TEMPLATE = E.elements["+"][0]
def c09_add(prefix: List[List[int]], a: int, b: int, rev: bool) -> bool:
    """
    pre: len(prefix) <= 3
    post: _
    """
    ctx = Context(); ctx.reverse_flag = rev
    stack = list(prefix) + [a, b]
    log = []
    def spy(lhs, rhs, ctx=None):
        log.append((lhs, rhs)); return ["spy", lhs, rhs]
    with NoTracing():
        ns = dict(BASE_NS)
    ns["ctx"] = ctx; ns["stack"] = stack; ns["add"] = spy
    exec(TEMPLATE, ns)
    ok = len(stack) == len(prefix) + 1 and all(stack[i] is prefix[i] for i in range(len(prefix)))
    return ok and len(log) == 1 and stack[-1][0] == "spy"

def c19_E(text: str, kind: int) -> bool:
    """
    pre: len(text) <= 3 and "\\n" not in text and len(text) >= 1
    pre: 0 <= kind <= 2
    post: _
    """
    hits = []
    allowed = []
    def fake_literal_eval(x):
        if kind == 0:
            raise ValueError("malformed")
        return 7 if kind == 1 else "abc"
    def det_eval(*a, **k):
        hits.append("eval"); return 0
    import builtins
    real_exec = builtins.exec
    def det_exec(code, *a, **k):
        if any(code is c for c in allowed):
            return real_exec(code, *a, **k)
        hits.append("exec"); return None
    def det_print(*a, **k):
        hits.append("print")
    real_transpile = T.transpile
    def tr(*a, **k):
        c = real_transpile(*a, **k); allowed.append(c); return c
    class FakeAst:
        literal_eval = staticmethod(fake_literal_eval)
    out = {1: "", 2: ""}
    try:
        H.ast = FakeAst
        for mod in (H, E, M, LL):
            mod.__dict__["eval"] = det_eval; mod.__dict__["exec"] = det_exec; mod.__dict__["print"] = det_print
        M.transpile = tr
        try:
            M.execute_vyxal("?E,", "e", text, out, True)
        except SystemExit:
            pass
    finally:
        H.ast = _ast
        for mod in (H, E, M, LL):
            for n in ("eval", "exec", "print"):
                mod.__dict__.pop(n, None)
        M.transpile = real_transpile
    return not hits and out[1] != ""

def c04_trunc_cheap(k: int, p: str) -> bool:
    """
    pre: 0 <= k <= 5
    pre: len(p) <= 2
    pre: "`" not in p and chr(92) not in p and "|" not in p
    post: _
    """
    closed = "[+|{-(λ`" + p + CLOSERS
    trunc = closed[: len(closed) - k]
    return shapev(parse(tokenise(trunc))) == shapev(parse(tokenise(closed)))
