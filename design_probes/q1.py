from typing import List
from crosshair.tracers import NoTracing
import vyxal.elements as E
from vyxal.elements import *
from vyxal.context import Context
from vyxal.LazyList import LazyList
from vyxal.lexer import tokenise, Token, TokenType
from vyxal.parse import parse, STRUCTURE_INFORMATION, MONADIC_MODIFIERS, DYADIC_MODIFIERS, TRIADIC_MODIFIERS
from vyxal.structure import Structure
from vyxal.encoding import codepage

REAL_DIV = E.divide
def spy_divide(lhs, rhs, ctx=None):
    if not isinstance(lhs, (list, LazyList)) and not isinstance(rhs, (list, LazyList)):
        return ["spy", lhs, rhs]
    return REAL_DIV(lhs, rhs, ctx)
spy_divide.__name__ = "divide"

def c08_divide(a: List[int], b: List[int], lazy: bool) -> bool:
    """
    pre: len(a) <= 3 and len(b) <= 3
    post: _
    """
    ctx = Context()
    E.divide = spy_divide
    try:
        la = LazyList(iter(list(a))) if lazy else list(a)
        got = list(REAL_DIV(la, list(b), ctx))
    finally:
        E.divide = REAL_DIV
    n = max(len(a), len(b))
    exp = [["spy", a[i] if i < len(a) else 0, b[i] if i < len(b) else 0] for i in range(n)]
    return got == exp

def c08_nested(a: List[List[int]], b: int) -> bool:
    """
    pre: len(a) <= 2 and all(len(x) <= 2 for x in a)
    post: _
    """
    ctx = Context()
    E.divide = spy_divide
    try:
        got = [list(r) for r in REAL_DIV([list(x) for x in a], b, ctx)]
    finally:
        E.divide = REAL_DIV
    return got == [[["spy", y, b] for y in x] for x in a]

KEYS = sorted(E.elements.keys())
def c20_keys(s: str) -> bool:
    """
    pre: any(s == k for k in KEYS)
    post: _
    """
    toks = tokenise(s)
    return len(toks) == 1 and toks[0].name == TokenType.GENERAL and toks[0].value == s and all(c in codepage for c in s)

def c13_neg(src: List[int], i: int) -> bool:
    """
    pre: len(src) <= 3 and i < 0 and -i <= len(src)
    post: _
    """
    ll = LazyList(iter(list(src)))
    v = ll[i]
    return v == src[i] and len(ll) == len(src) and list(ll) == src
