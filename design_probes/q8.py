from typing import List
import secrets
_n=[0]
def _tok(k):
    _n[0]+=1; return "%032x"%_n[0]
secrets.token_hex=_tok
from crosshair.tracers import NoTracing
import vyxal.transpile as T
from vyxal.transpile import *
from vyxal.elements import *
from vyxal.context import Context
from vyxal.helpers import *
from vyxal.LazyList import *
from vyxal.lexer import tokenise, Token, TokenType
from vyxal.parse import parse
from vyxal.structure import Structure
BASE_NS=dict(globals())

# ---- C05 lexing: reference splitter
def ref_split(s):
    out=[]; i=0; n=len(s)
    while i<n:
        c=s[i]
        if c=="0" and not (i+1<n and s[i+1]=="."):
            out.append("0"); i+=1; continue
        j=i+1; dots=1 if c=="." else 0
        while j<n:
            d=s[j]
            if d==".":
                if dots==1: break
                dots+=1
            j+=1
        out.append(s[i:j]); i=j
    return out
def c05_lex(s: str) -> bool:
    """
    pre: len(s) <= 5
    pre: all(c in "0123456789." for c in s)
    post: _
    """
    toks=tokenise(s)
    return all(t.name==TokenType.NUMBER for t in toks) and [t.value for t in toks]==ref_split(s)
def c05_lower(s: str) -> bool:
    """
    pre: 1 <= len(s) <= 5
    pre: all(c in "0123456789." for c in s) and s.count(".") <= 1 and not (s[0] == "0" and len(s) > 1 and s[1] != ".")
    post: _
    """
    toks=tokenise(s)
    if len(toks)!=1: return False
    code=transpile_token(toks[0],0)
    pre='stack.append(sympy.nsimplify("'; suf='"))\n'
    if not (code.startswith(pre) and code.endswith(suf)): return False
    body=code[len(pre):len(code)-len(suf)]
    return body==("0.5" if s=="." else s)

# ---- C11 scope lemma
P_LAM=transpile("λ3|+++;†")       # lambda arity 3 doing more implicit reads than args -> cycles over its args
P_LAM_Q=transpile("??λ1|?+;†?")   # explicit read inside lambda takes top-level input
def c11_lambda(a: int, b: int, c: int, x: int, y: int) -> bool:
    """
    post: _
    """
    ctx=Context(); stack=[a,b,c]; ctx.inputs[0][0]=[x,y]; ctx.stacks.append(stack)
    with NoTracing(): ns=dict(BASE_NS)
    ns["ctx"]=ctx; ns["stack"]=stack
    exec(P_LAM, ns)
    # callee stack [a,b,c]; + pops c,b -> b+c ; + pops (b+c), a ; third + pops sum and implicit read from lambda scope
    return len(stack)==1 and len(ctx.inputs)==1 and ctx.inputs[0][1]==0
def c11_lambda_q(x: int, y: int, z: int) -> bool:
    """
    post: _
    """
    ctx=Context(); stack=[]; ctx.inputs[0][0]=[x,y,z]; ctx.stacks.append(stack)
    with NoTracing(): ns=dict(BASE_NS)
    ns["ctx"]=ctx; ns["stack"]=stack
    exec(P_LAM_Q, ns)
    # reads: ? -> x ; ? -> y ; lambda pops y ; inside ? -> z ; y+z ; after: ? -> x (cycled)
    return stack==[x, y+z, x] and ctx.inputs[0][1]==4 and len(ctx.inputs)==1

# ---- C18 raw programs len<=2: transpile never raises anything but the parser's documented errors
def c18_raw(s: str) -> bool:
    """
    pre: len(s) <= 2
    post: _
    """
    try:
        out=transpile(s, False)
    except (IndexError, ValueError, AssertionError):
        return True
    return len(out)>0

# ---- C03 other literal kinds
def shape(x):
    if isinstance(x, Token): return ("T", x.name.value, x.value if x.name.value=="general" else None)
    if isinstance(x, Structure): return (type(x).__name__, getattr(x,"modifier",None), tuple(shape(b) for b in x.branches))
    if isinstance(x,(list,tuple)): return tuple(shape(b) for b in x)
    if isinstance(x,type): return x.__name__
    return ("V",) if isinstance(x,str) else x
REF_TWO=shape(parse(tokenise("(‛ab|1)")))
def c03_twochar(p: str) -> bool:
    """
    pre: len(p) == 2
    post: _
    """
    return shape(parse(tokenise("(‛"+p+"|1)")))==REF_TWO
REF_CMT=shape(parse(tokenise("{1#ab\n|2}")))
def c03_comment(p: str) -> bool:
    """
    pre: len(p) <= 4 and chr(10) not in p
    post: _
    """
    return shape(parse(tokenise("{1#"+p+"\n|2}")))==REF_CMT
