import itertools, warnings, string, random
warnings.filterwarnings("ignore")
import vyxal.transpile as T
from vyxal.transpile import *
from vyxal.elements import *
from vyxal.context import Context
from vyxal.encoding import codepage
BASE=dict(vars(T))
def runp(code, dc=True):
    ctx=Context(); st=[]; ctx.stacks.append(st); ns=dict(BASE); ns.update(ctx=ctx, stack=st)
    exec(transpile(code, dc), ns); return st
ctx=Context()
# C06 exhaustive len<=2 over codepage, compression off
bad=[]
for n in (0,1,2):
    for t in itertools.product(codepage, repeat=n):
        s="".join(t)
        try:
            st=runp(quotify(s,ctx), False)
            if st!=[s]: bad.append((s,st))
        except Exception as e:
            bad.append((s,type(e).__name__))
print("C06 off, len<=2 codepage: bad",len(bad),bad[:8])
ASCII=[c for c in string.printable if c in codepage and c not in "\t\r\x0b\x0c"]
bad=[]
for n in (0,1,2,3):
    for t in itertools.product(ASCII, repeat=n):
        s="".join(t)
        try:
            st=runp(quotify(s,ctx), True)
            if st!=[s]: bad.append((s,st))
        except Exception as e:
            bad.append((s,type(e).__name__))
print("C06 on, len<=3 ascii: bad",len(bad),bad[:8])
# C15 string compress
bad=[]
AL="abcdefghijklmnopqrstuvwxyz "
for n in (1,2,3):
    for t in itertools.product(AL, repeat=n):
        s="".join(t)
        if s[0]==" ": continue
        try:
            st=runp(base_255_string_compress(s,ctx))
            if st!=[s]: bad.append((s,st))
        except Exception as e: bad.append((s,type(e).__name__))
print("C15 øc len<=3: bad",len(bad),bad[:8])
# dictionary compress
import vyxal.dictionary as D
random.seed(3)
bad=[]; longer=[]
words=[w for w in D.contents if w and all(c in ASCII for c in w) and "`" not in w and "\\" not in w]
for _ in range(3000):
    parts=[random.choice(words) if random.random()<0.6 else "".join(random.choice([c for c in ASCII if c not in "`\\"]) for _ in range(random.randint(0,3))) for _ in range(random.randint(1,4))]
    s=" ".join(parts) if random.random()<0.5 else "".join(parts)
    try:
        c=optimal_compress(s,ctx)
        st=runp(c)
        if st!=[s]: bad.append((s,c,st))
        if len(c)>len(s)+2: longer.append((s,c))
    except Exception as e: bad.append((s,type(e).__name__))
print("C15 øD random: bad",len(bad),bad[:5],"longer",len(longer),longer[:3])
