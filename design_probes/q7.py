from typing import List
import secrets
_n = [0]
def _tok(k):
    _n[0] += 1
    return "%032x" % _n[0]
secrets.token_hex = _tok
import vyxal.main as M, vyxal.elements as E, vyxal.helpers as H, vyxal.LazyList as LL
def run_main(prog, flags, inputs):
    outs = []
    def fake_print(*a, end="\n", **k):
        outs.append((a, end))
    for mod in (M, E, H, LL):
        mod.__dict__["print"] = fake_print
    real_vy_eval = H.vy_eval
    M.__dict__["vy_eval"] = lambda x, ctx: real_vy_eval(x, ctx) if isinstance(x, str) else x
    try:
        M.execute_vyxal(prog, flags + "e", inputs)
    finally:
        for mod in (M, E, H, LL):
            mod.__dict__.pop("print", None)
        M.__dict__["vy_eval"] = real_vy_eval
    return outs
def m1(a: int, b: int) -> bool:
    """
    post: _
    """
    outs = run_main("?[₀|u]?+", "", [a, b])
    exp = (10 if a != 0 else -1) + b
    return len(outs) == 1 and outs[0][0][0] == exp and outs[0][1] == "\n"
def m2(a: int) -> bool:
    """
    post: _
    """
    outs = run_main("?+", "H", [a])
    return len(outs) == 1 and outs[0][0][0] == 100 + a
def m3(a: int) -> bool:
    """
    pre: 0 <= a <= 3
    post: _
    """
    outs = run_main("?(n,)", "M", [a])
    return [o[0][0] for o in outs[: a + 1]] == list(range(0, a + 1))
def m4(a: List[int]) -> bool:
    """
    pre: len(a) <= 3
    post: _
    """
    outs = run_main("?", "s", [list(a)])
    return len(outs) == 1 and outs[0][0][0] == sum(a)
