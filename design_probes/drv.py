import sys, time, importlib
from crosshair.core_and_libs import analyze_function, run_checkables, AnalysisKind, MessageType
from crosshair.options import AnalysisOptionSet
import crosshair.core as core
def run(fn, timeout=120.0, max_iter=10**9):
    opts = AnalysisOptionSet(per_condition_timeout=timeout, per_path_timeout=timeout, max_uninteresting_iterations=max_iter, analysis_kind=[AnalysisKind.PEP316], report_all=True, report_verbose=False)
    t=time.time()
    msgs = list(run_checkables(analyze_function(fn, opts)))
    dt=time.time()-t
    for m in msgs:
        print(fn.__name__, m.state.name, m.message[:300].replace("\n"," | "), f"{dt:.1f}s")
    return msgs
if __name__ == "__main__":
    mod = importlib.import_module(sys.argv[1])
    for name in sys.argv[2:]:
        run(getattr(mod, name), timeout=float(__import__('os').environ.get("T","120")))
