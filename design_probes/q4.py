from typing import List
from crosshair.tracers import NoTracing
import secrets
import vyxal.transpile as T
from vyxal.transpile import *
from vyxal.elements import *
from vyxal.context import Context
from vyxal.helpers import *
from vyxal.LazyList import *
_n = [0]
def _tok(k):
    _n[0] += 1
    return "%032x" % _n[0]
secrets.token_hex = _tok
BASE_NS = dict(globals())
def run(code, inputs):
    ctx = Context(); stack = []
    ctx.inputs[0][0] = list(inputs); ctx.stacks.append(stack)
    with NoTracing():
        ns = dict(BASE_NS)
    ns["ctx"] = ctx; ns["stack"] = stack
    exec(code, ns)
    return stack, ctx
P1 = transpile("?ƛ₀+;∑")
P2 = transpile("@f:2|+;??@f;")
P3 = transpile("?v›")
P4 = transpile("?₀₌+-")
P5 = transpile("?⟨₀|n|:+⟩")
def p1(a: List[int]) -> bool:
    """
    pre: len(a) <= 3
    post: _
    """
    st, ctx = run(P1, [list(a)])
    return len(st) == 1 and st[0] == sum(x + 10 for x in a) and len(ctx.context_values) == 1 and len(ctx.stacks) == 1
def p2(a: int, b: int) -> bool:
    """
    post: _
    """
    st, ctx = run(P2, [a, b])
    return st == [a + b] and len(ctx.inputs) == 1 and len(ctx.stacks) == 1
def p3(a: List[int]) -> bool:
    """
    pre: len(a) <= 3
    post: _
    """
    st, ctx = run(P3, [list(a)])
    return len(st) == 1 and list(st[0]) == [x + 1 for x in a]
def p4(a: int) -> bool:
    """
    post: _
    """
    st, ctx = run(P4, [a])
    return st == [a + 10, a - 10]
def p5(a: int) -> bool:
    """
    post: _
    """
    st, ctx = run(P5, [a])
    return len(st) == 2 and st[0] == a and list(st[1]) == [10, 0, a + a]
