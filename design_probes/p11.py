from vyxal.lexer import tokenise, Token
from vyxal.parse import parse
from vyxal.structure import Structure
def shape(x):
    if isinstance(x, Token):
        return ("T", x.name.value, x.value if x.name.value == "general" else None)
    if isinstance(x, Structure):
        return (type(x).__name__, getattr(x, "modifier", None), tuple(shape(b) for b in x.branches))
    if isinstance(x, (list, tuple)):
        return tuple(shape(b) for b in x)
    if isinstance(x, type):
        return x.__name__
    return ("V", type(x).__name__) if isinstance(x, str) else x
REF = shape(parse(tokenise("1[`a`|2]")))
def payload_shape(p: str) -> bool:
    """
    pre: len(p) <= 2
    pre: "`" not in p and "\\" not in p and "|" not in p
    post: _
    """
    return shape(parse(tokenise("1[`" + p + "`|2]"))) == REF

def payload_shape6(p: str) -> bool:
    """
    pre: len(p) <= 6
    pre: "`" not in p and "\\" not in p and "|" not in p
    post: _
    """
    return shape(parse(tokenise("1[`" + p + "`|2]"))) == REF
def payload_shape_pipe(p: str) -> bool:
    """
    pre: len(p) <= 3
    pre: "`" not in p and "\\" not in p
    post: _
    """
    return shape(parse(tokenise("1[`" + p + "`|2]"))) == REF
