from typing import List
import itertools
from vyxal.elements import *
from vyxal.context import Context
from vyxal.LazyList import LazyList
from vyxal.helpers import deep_copy

def c16_perm(a: List[int]) -> bool:
    """
    pre: len(a) <= 4
    post: _
    """
    ctx = Context()
    got = [list(x) for x in permutations(list(a), ctx)]
    return got == [list(x) for x in itertools.permutations(a)]

def c16_powerset(a: List[int]) -> bool:
    """
    pre: len(a) <= 4
    post: _
    """
    ctx = Context()
    got = [list(x) for x in powerset(list(a), ctx)]
    exp = [[]]
    for e in a:
        exp = exp + [s + [e] for s in exp]
    return len(got) == 2 ** len(a) and sorted(map(tuple, got)) == sorted(map(tuple, exp))

def c16_cumsum_deltas(a: List[int]) -> bool:
    """
    pre: len(a) <= 4
    post: _
    """
    ctx = Context()
    cs = list(cumulative_sum(list(a), ctx)) if a else []
    ok = cs == list(itertools.accumulate(a))
    d = list(deltas(list(a), ctx))
    return ok and d == [a[i + 1] - a[i] for i in range(len(a) - 1)]

def c16_interleave(a: List[int], b: List[int]) -> bool:
    """
    pre: len(a) <= 3 and len(b) <= 3
    post: _
    """
    ctx = Context()
    il = list(interleave(list(a), list(b), ctx))
    if len(a) == len(b):
        un = uninterleave(il, ctx)
        return list(un[0]) == a and list(un[1]) == b
    return len(il) == len(a) + len(b)

def c13_hist(src: List[int], i: int, j: int, lo: int, hi: int, v: int) -> bool:
    """
    pre: len(src) <= 3 and i >= 0 and j >= 0 and 0 <= lo and 0 <= hi
    post: _
    """
    ll = LazyList(iter(list(src)))
    n = len(src)
    r1 = ll[i]
    e1 = (src[i % n] if n else 0)
    r2 = ll[lo:hi]
    e2 = src[lo:hi] if hi <= n else None
    r3 = (v in ll)
    return r1 == e1 and (e2 is None or list(r2) == e2) and bool(r3) == (v in src) and list(ll) == src and len(ll) == n

def c14_filter(n: int, a0: int, d1: int, d2: int, d3: int, d4: int, d5: int, d6: int, d7: int) -> bool:
    """
    pre: 0 <= n <= 3
    pre: d1 > 0 and d2 > 0 and d3 > 0 and d4 > 0 and d5 > 0 and d6 > 0 and d7 > 0
    post: _
    """
    ctx = Context()
    vals = list(itertools.accumulate([a0, d1, d2, d3, d4, d5, d6, d7]))
    pulls = [0]
    def src():
        for x in vals:
            pulls[0] += 1
            yield x
        raise AssertionError("over-pull")
    ll = LazyList(src(), isinf=True)
    # keep every item at an even position: zip with index then filter via uniquify/enumerate path
    en = vy_enumerate(ll, ctx)
    u = uniquify(ll if False else LazyList((x for x in en)), ctx)
    got = [u[k] for k in range(n)]
    return [g[1] for g in got] == vals[:n] and pulls[0] <= n + 1

def c10_assign(a: List[int], i: int, v: int) -> bool:
    """
    pre: 1 <= len(a) <= 3 and 0 <= i < len(a)
    post: _
    """
    ctx = Context()
    arg = list(a)
    r = assign_iterable(arg, i, v, ctx)
    return arg == a

def c10_sorts(a: List[int]) -> bool:
    """
    pre: len(a) <= 3
    post: _
    """
    ctx = Context()
    arg = list(a)
    r1 = list(vy_sort(arg, ctx)); r2 = list(reverse(arg, ctx)); r3 = list(uniquify(arg, ctx)); r4 = list(deep_flatten(arg, ctx))
    r5 = list(prefixes(arg, ctx))
    return arg == a
