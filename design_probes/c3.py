import re, sys, types, inspect, signal, ast as _ast
import vyxal.elements as E
from vyxal.context import Context
from vyxal.LazyList import LazyList

def read_yaml(path):
    docs=[]; cur=None
    for line in open(path, encoding='utf-8'):
        m=re.match(r'^- (element|modifier): (.*)$', line.rstrip('\n'))
        if m:
            cur={}; docs.append(cur)
            v=m.group(2).split(' #')[0].strip()
            try: v=_ast.literal_eval(v)
            except Exception: pass
            cur[m.group(1)]=v; continue
        m=re.match(r'^  (arity|vectorise|name): (.*)$', line.rstrip('\n'))
        if m and cur is not None:
            v=m.group(2).strip()
            if v in('true','false'): v=(v=='true')
            else:
                try: v=_ast.literal_eval(v)
                except Exception: pass
            cur[m.group(1)]=v
    return docs
docs = read_yaml('/repo/documents/knowledge/elements.yaml')
vec = [d for d in docs if d.get('vectorise') is True and 'element' in d]
print("vectorise:true entries", len(vec))
def force(x):
    if isinstance(x, (list, LazyList)):
        return [force(y) for y in x]
    return x
class TO(Exception): pass
def handler(*a): raise TO()
signal.signal(signal.SIGALRM, handler)
ok=[]; bad=[]; skipped=[]
for d in vec:
    key = d['element']; ar = d.get('arity')
    if key not in E.elements: skipped.append((key,'notintable')); continue
    tmpl, tar = E.elements[key]
    m = re.search(r"stack\.append\((\w+)\((lhs|rhs|third)", tmpl)
    if not m: skipped.append((key,'handwritten')); continue
    fname = m.group(1); f = getattr(E, fname, None)
    if not isinstance(f, types.FunctionType): skipped.append((key,'nofn')); continue
    def mkspy(real):
        def spy(*args, ctx=None, **k):
            if not any(isinstance(a, (list, LazyList)) for a in args):
                return ["spy"] + list(args)
            return real(*args, ctx=ctx) if ctx is not None else real(*args, Context())
        spy.__name__ = real.__name__
        return spy
    setattr(E, fname, mkspy(f))
    ctx = Context()
    try:
        signal.alarm(5)
        if tar == 1:
            got = force(f([1, [2, 3]], ctx)); exp = [["spy",1],[["spy",2],["spy",3]]]
        elif tar == 2:
            got = force(f([1, 2], [3], ctx)); exp=[["spy",1,3],["spy",2,0]]
            got2 = force(f(5, [1,[2]], ctx)); exp2=[["spy",5,1],[["spy",5,2]]]
            got = (got, got2); exp=(exp, exp2)
        elif tar == 3:
            got = force(f([1,2], 7, 8, ctx)); exp=[["spy",1,7,8],["spy",2,7,8]]
        else:
            skipped.append((key,'arity%s'%tar)); continue
        signal.alarm(0)
        (ok if got == exp else bad).append((key, fname) if got==exp else (key, fname, repr(got)[:80]))
    except BaseException as e:
        signal.alarm(0)
        bad.append((key, fname, type(e).__name__+": "+str(e)[:60]))
    finally:
        setattr(E, fname, f)
print("ok", len(ok)); print("bad", len(bad)); 
for b in bad: print("  ", b)
print("skipped", len(skipped), skipped)
