import secrets
_n = [0]
def _tok(k):
    _n[0] += 1
    return "%032x" % _n[0]
secrets.token_hex = _tok
from vyxal.transpile import transpile

def pybody_ok(t: str) -> bool:
    i = 0; n = len(t)
    while i < n:
        c = t[i]
        if c == '"' or c == "\n" or c == "\r":
            return False
        if c == chr(92):
            if i + 1 >= n:
                return False
            i += 2
        else:
            i += 1
    return True

def ref(ctx_l, ctx_r, p0="a"):
    _n[0] = 0
    return transpile(ctx_l + p0 + ctx_r, False)
R1 = ref("1[`", "`|2]")
i1 = R1.index('"a"')
PRE1, SUF1 = R1[: i1 + 1], R1[i1 + 2 :]
def c18_string(p: str) -> bool:
    """
    pre: len(p) == 2
    pre: chr(96) not in p
    post: _
    """
    _n[0] = 0
    out = transpile("1[`" + p + "`|2]", False)
    if not (out.startswith(PRE1) and out.endswith(SUF1) and len(out) >= len(PRE1) + len(SUF1)):
        return False
    return pybody_ok(out[len(PRE1): len(out) - len(SUF1)])

R2 = ref("@f:", "|1;", "q")
def c18_param(p: str) -> bool:
    """
    pre: len(p) == 1
    pre: p not in "|;:*0123456789" and p != chr(96) and p != chr(92)
    post: _
    """
    _n[0] = 0
    out = transpile("@f:" + p + "|1;", False)
    segs = R2.split("VAR_q")
    # out must be segs[0] + "VAR_" + tail + segs[1] ... with identifier tail
    if not out.startswith(segs[0] + "VAR_"):
        return False
    rest = out[len(segs[0]) + 4 :]
    j = rest.find(segs[1])
    if j < 0:
        return False
    tail = rest[:j]
    return all(("a" <= c <= "z") or ("A" <= c <= "Z") or ("0" <= c <= "9") or c == "_" for c in tail) and rest[j:] == segs[1]
print(repr(R2))
