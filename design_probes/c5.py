import itertools, signal, io, contextlib, sys, random
import sympy
import vyxal.transpile as T
from vyxal.transpile import *
from vyxal.elements import *
from vyxal.context import Context
from vyxal.LazyList import LazyList
BASE = dict(vars(T))
class TO(Exception): pass
def handler(*a): raise TO()
signal.signal(signal.SIGALRM, handler)
def lam(ar=1):
    ctx=Context(); st=[]; ns=dict(BASE); ns.update(ctx=ctx, stack=st)
    exec(transpile("λ%d|₀;"%ar), ns); return st[-1]
POOL = [lambda: 3, lambda: sympy.Rational(7,2), lambda: "ab", lambda: [1,2,3], lambda: LazyList(iter([2,1])), lambda: [[1,2],[3,4]], lambda: lam(1), lambda: "a b", lambda: 0, lambda: ["a","b"]]
viol=[]; noargs=[]; okc=0
for key,(tmpl,ar) in elements.items():
    if key in ("Q","ṁ","℅","ÞB","Þ℅","¨U","kD","kN","kḋ","kḊ","kð","□"): continue
    found=False
    for combo in itertools.islice(itertools.product(range(len(POOL)), repeat=max(ar,0)), 0, 400):
        args=[POOL[i]() for i in combo]
        prefix=[[101],[102],[103]]
        stack=list(prefix)+args
        ctx=Context(); ctx.stacks.append(stack); ctx.inputs[0][0]=[9,8,7]
        ns=dict(BASE); ns.update(ctx=ctx, stack=stack)
        try:
            signal.alarm(3)
            with contextlib.redirect_stdout(io.StringIO()):
                exec(tmpl, ns)
            signal.alarm(0)
        except BaseException as e:
            signal.alarm(0); continue
        found=True
        same = len(stack)>=3 and all(stack[i] is prefix[i] for i in range(3)) and prefix==[[101],[102],[103]]
        if not same:
            viol.append((key, ar, combo, [repr(x)[:30] for x in stack[:4]]))
        break
    if not found: noargs.append(key)
    else: okc+=1
print("ran",okc,"noargs",noargs)
print("violations",len(viol))
for v in viol: print("  ",v)
