from typing import List
import secrets
_n=[0]
def _tok(k):
    _n[0]+=1; return "%032x"%_n[0]
secrets.token_hex=_tok
from crosshair.tracers import NoTracing
import vyxal.transpile as T
from vyxal.transpile import *
from vyxal.elements import *
from vyxal.context import Context
from vyxal.helpers import *
from vyxal.LazyList import *
from vyxal.lexer import tokenise
from vyxal.parse import parse
import vyxal.elements as E, vyxal.helpers as H, vyxal.main as M, vyxal.LazyList as LL
BASE_NS=dict(globals())
def mkctx(inputs):
    ctx=Context(); stack=[]; ctx.inputs[0][0]=list(inputs); ctx.stacks.append(stack)
    with NoTracing(): ns=dict(BASE_NS)
    ns["ctx"]=ctx; ns["stack"]=stack
    return ctx, stack, ns
def depths(ctx): return (len(ctx.context_values), len(ctx.inputs), len(ctx.stacks), len(ctx.function_stack))
# C12 statement-wise: program with nested loop + if + lambda map, every condition input-driven
PROG="?(?[x|n_])?ƛ?[₀|n];_"
STMTS=[transpile_ast([st]) for st in parse(tokenise(PROG))]
def c12_stmtwise(a: int, b: int, c: int, l: List[int], d: int) -> bool:
    """
    pre: 0 <= a <= 2 and len(l) <= 2
    post: _
    """
    ctx, stack, ns = mkctx([a, b, c, list(l), d])
    d0 = depths(ctx)
    for code in STMTS:
        exec(code, ns)
        if depths(ctx) != d0 or ctx.context_values[-1] != 0:
            return False
    return True
# C10 family B: dup then mutate-ish sequence on one copy
PB = transpile("?:₀‹Ṙ_")     # input list, dup, push 10, decrement..., reverse top, pop -> remaining copy must equal input
PB2 = transpile("?:ṘJ_")
PB3 = transpile("?D¦$Ṙ__")
def c10_copy(l: List[int]) -> bool:
    """
    pre: len(l) <= 3
    post: _
    """
    for code in (PB2, PB3):
        ctx, stack, ns = mkctx([list(l)])
        exec(code, ns)
        if len(stack) != 1 or list(stack[0]) != l:
            return False
    return True
PB4 = transpile("?:u₀Ȧ_")   # assign index -1 := 10 on one copy
def c10_copy_assign(l: List[int]) -> bool:
    """
    pre: 1 <= len(l) <= 3
    post: _
    """
    ctx, stack, ns = mkctx([list(l)])
    exec(PB4, ns)
    return len(stack) == 1 and list(stack[0]) == l
