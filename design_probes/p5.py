from typing import List
from vyxal.lexer import tokenise, Token, TokenType
from vyxal.transpile import transpile_token, transpile
from vyxal.elements import quotify
from vyxal.context import Context
from vyxal.encoding import codepage

CTX = Context()
PRE = 'stack.append("'
SUF = '")\n'

def pydecode(t: str):
    out = []
    i = 0
    n = len(t)
    while i < n:
        c = t[i]
        if c == '"' or c == "\n" or c == "\r":
            return None
        if c == "\\":
            if i + 1 >= n:
                return None
            d = t[i + 1]
            if d == "\\" or d == '"' or d == "'":
                out.append(d)
            elif d == "n":
                out.append("\n")
            else:
                return None  # other escapes: handled by the full model later
            i += 2
        else:
            out.append(c)
            i += 1
    return "".join(out)

def q_roundtrip(s: str) -> bool:
    """
    pre: len(s) <= 3
    pre: all(c in codepage for c in s)
    post: _
    """
    q = quotify(s, CTX)
    toks = tokenise(q)
    if len(toks) != 1 or toks[0].name != TokenType.STRING:
        return False
    code = transpile_token(toks[0], 0, dict_compress=False)
    if not (code.startswith(PRE) and code.endswith(SUF)):
        return False
    body = code[len(PRE): len(code) - len(SUF)]
    return pydecode(body) == s

import string
ASCII = "".join(c for c in string.printable if c in codepage and c not in "\t\r\x0b\x0c")
def q_roundtrip_dict(s: str) -> bool:
    """
    pre: len(s) <= 3
    pre: all(c in ASCII for c in s)
    post: _
    """
    q = quotify(s, CTX)
    toks = tokenise(q)
    if len(toks) != 1 or toks[0].name != TokenType.STRING:
        return False
    code = transpile_token(toks[0], 0, dict_compress=True)
    if not (code.startswith(PRE) and code.endswith(SUF)):
        return False
    body = code[len(PRE): len(code) - len(SUF)]
    return pydecode(body) == s

import secrets
def skel_payload(p: str) -> bool:
    """
    pre: len(p) <= 2
    post: _
    """
    prog = "1[`" + p + "`|2]"
    ref = transpile("1[`a`|2]", False)
    out = transpile(prog, False)
    return out.count("\n") >= 1
