import random, itertools
from vyxal.lexer import tokenise
from vyxal.parse import parse
random.seed(7)
LEAVES=["1","+","n","`ab`","‛xy","\\c","→v","←v","«ab«","»ab»","⁺c","d","_",":"]
def prog(d):
    return "".join(item(d) for _ in range(random.randint(1,2)))
def item(d):
    if d==0 or random.random()<0.35: return random.choice(LEAVES)
    k=random.choice(["if","if2","if3","for","forv","while","while2","lam","lam2","map","filt","sort","list","list2","fdef","fcall","m1","m2","m3"])
    p=lambda: prog(d-1)
    return {"if":lambda:"["+p()+"]","if2":lambda:"["+p()+"|"+p()+"]","if3":lambda:"["+p()+"|"+p()+"|"+p()+"]",
     "for":lambda:"("+p()+")","forv":lambda:"(i|"+p()+")","while":lambda:"{"+p()+"}","while2":lambda:"{"+p()+"|"+p()+"}",
     "lam":lambda:"λ"+p()+";","lam2":lambda:"λ2|"+p()+";","map":lambda:"ƛ"+p()+";","filt":lambda:"'"+p()+";","sort":lambda:"µ"+p()+";",
     "list":lambda:"⟨"+p()+"⟩","list2":lambda:"⟨"+p()+"|"+p()+"⟩","fdef":lambda:"@f:a|"+p()+";","fcall":lambda:"@f;",
     "m1":lambda:random.choice("v&~ßƒɖ⁽")+item(d-1),"m2":lambda:random.choice("₌‡₍")+item(d-1)+item(d-1),"m3":lambda:"≬"+item(d-1)+item(d-1)+item(d-1)}[k]()
CLOSERS="])};⟩`«»"
bad={}; n=0; trunc_total=0
for _ in range(20000):
    s=prog(3)
    # trailing closers
    k=0
    while k<len(s) and s[len(s)-1-k] in CLOSERS: k+=1
    if k==0: continue
    try: full=repr(parse(tokenise(s)))
    except Exception as e: continue
    n+=1
    for j in range(1,k+1):
        t=s[:len(s)-j]
        trunc_total+=1
        try: r=repr(parse(tokenise(t)))
        except Exception as e: r="EXC "+type(e).__name__
        if r!=full:
            key=(s[len(s)-j:],)
            if len(bad)<400: bad.setdefault(s,(t,))
print("programs",n,"truncations",trunc_total,"programs with a differing truncation",len(bad))
for s,(t,) in list(sorted(bad.items(), key=lambda x: len(x[0])))[:25]: print(repr(s),"->",repr(t))
