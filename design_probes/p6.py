from typing import List, Union, Tuple
import itertools
from crosshair.tracers import NoTracing
from vyxal.transpile import *
from vyxal.elements import *
from vyxal.context import Context
from vyxal.helpers import *
from vyxal.LazyList import *

BASE_NS = dict(globals())

def g2(lhs, rhs, ctx=None):
    return ("g", lhs, rhs)

def vec_list_list(a: List[int], b: List[int]) -> bool:
    """
    pre: len(a) <= 3 and len(b) <= 3
    post: _
    """
    ctx = Context()
    r = vectorise(g2, list(a), list(b), ctx=ctx)
    got = list(r)
    n = max(len(a), len(b))
    exp = [("g", a[i] if i < len(a) else 0, b[i] if i < len(b) else 0) for i in range(n)]
    return got == exp

def vec_list_scalar(a: List[int], b: int) -> bool:
    """
    pre: len(a) <= 4
    post: _
    """
    ctx = Context()
    got = list(vectorise(g2, list(a), b, ctx=ctx))
    got2 = list(vectorise(g2, b, LazyList(iter(list(a))), ctx=ctx))
    return got == [("g", x, b) for x in a] and got2 == [("g", b, x) for x in a]

def add_vec(a: List[int], b: List[int]) -> bool:
    """
    pre: len(a) <= 3 and len(b) <= 3
    post: _
    """
    ctx = Context()
    got = list(add(list(a), list(b), ctx))
    n = max(len(a), len(b))
    exp = [(a[i] if i < len(a) else 0) + (b[i] if i < len(b) else 0) for i in range(n)]
    return got == exp

def sort_law(a: List[int]) -> bool:
    """
    pre: len(a) <= 4
    post: _
    """
    ctx = Context()
    got = list(vy_sort(list(a), ctx))
    ok_sorted = all(got[i] <= got[i + 1] for i in range(len(got) - 1))
    ok_perm = len(got) == len(a) and all(got.count(x) == a.count(x) for x in a)
    return ok_sorted and ok_perm

def uniq_law(a: List[int]) -> bool:
    """
    pre: len(a) <= 4
    post: _
    """
    ctx = Context()
    got = list(uniquify(list(a), ctx))
    exp = []
    for x in a:
        if x not in exp:
            exp.append(x)
    return got == exp

TEMPLATE_ADD = elements["+"][0]
TEMPLATE_SWAP = elements["$"][0]
TEMPLATE_ROT = elements["∇"][0]
def tmpl_swap(prefix: List[int], x: int, y: int, rev: bool) -> bool:
    """
    pre: len(prefix) <= 3
    post: _
    """
    ctx = Context()
    ctx.reverse_flag = rev
    stack = list(prefix) + [x, y]
    with NoTracing():
        ns = dict(BASE_NS)
    ns["ctx"] = ctx; ns["stack"] = stack
    exec(TEMPLATE_SWAP, ns)
    return stack[: len(prefix)] == prefix and len(stack) == len(prefix) + 2 and stack[-2:] == [y, x]
