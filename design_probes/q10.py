from typing import List
import vyxal.helpers
from vyxal.LazyList import LazyList
from vyxal.helpers import deep_copy
def h1(src: List[int], i: int, lo: int, hi: int, v: int) -> bool:
    """
    pre: len(src) <= 3 and i >= 0
    pre: 0 <= lo <= 5 and 0 <= hi <= len(src)
    post: _
    """
    ll = LazyList(iter(list(src)))
    n = len(src)
    r1 = ll[i]; e1 = (src[i % n] if n else 0)
    r2 = ll[lo:hi]; e2 = src[lo:hi]
    r3 = (v in ll)
    return r1 == e1 and list(r2) == e2 and bool(r3) == (v in src) and list(ll) == src and len(ll) == n
def h2(src: List[int], v: int, w: int) -> bool:
    """
    pre: len(src) <= 3
    post: _
    """
    ll = LazyList(iter(list(src)))
    c = ll.count(v)
    cp = deep_copy(ll)
    b = bool(ll)
    eq = (cp == list(src))
    rv = list(ll.reversed())
    return c == src.count(v) and b == bool(src) and eq and rv == src[::-1] and list(ll) == src and list(cp) == src
def h3(src: List[int], other: List[int]) -> bool:
    """
    pre: 1 <= len(src) <= 3 and 1 <= len(other) <= 3
    post: _
    """
    a = LazyList(iter(list(src))); b = LazyList(iter(list(other)))
    lt = a < b
    return bool(lt) == (src < other) and list(a) == src and list(b) == other
