from typing import List, Tuple, Union
from vyxal.context import Context
from vyxal.helpers import pop, get_input, wrapify, deep_copy
from vyxal.LazyList import LazyList
import builtins

def _noinput(*a):
    raise EOFError

def step_pop(inputs: List[int], cursor: int, stack: List[int], k: int) -> List[int]:
    """
    pre: 0 <= len(inputs) <= 4 and cursor >= 0 and len(stack) <= 3 and 1 <= k <= 3
    post: True
    """
    ctx = Context()
    ctx.inputs = [[list(inputs), cursor]]
    st = list(stack)
    old = builtins.input
    builtins.input = _noinput
    try:
        got = pop(st, k, ctx)
    finally:
        builtins.input = old
    if k == 1:
        got = [got]
    m = min(len(stack), k)
    exp = list(reversed(stack))[:m]
    n = len(inputs)
    for j in range(k - m):
        exp.append(inputs[(cursor + j) % n] if n else 0)
    assert got == exp, (got, exp)
    assert ctx.inputs[0][1] == cursor + ((k - m) if n else 0)
    assert st == stack[: len(stack) - m]
    return got

def ll_index(src: List[int], i: int, j: int) -> int:
    """
    pre: len(src) <= 4
    post: True
    """
    ll = LazyList(iter(list(src)))
    a = ll[i] if i >= 0 else None
    b = ll[j] if j >= 0 else None
    n = len(src)
    if i >= 0:
        assert a == (src[i % n] if n else 0) if i >= n else a == src[i]
    assert len(ll) == n
    assert list(ll) == src
    return 0
