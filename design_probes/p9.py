from vyxal.elements import add, subtract, multiply, modulo, integer_divide, less_than, equals, vy_type
from vyxal.context import Context
CTX = Context()
def lin(a: int, b: int) -> bool:
    """
    post: _
    """
    r1 = add(a, b, CTX); r2 = subtract(a, b, CTX)
    return r1 == a + b and r2 == a - b and type(r1) is int and type(r2) is int and less_than(a, b, CTX) == (1 if a < b else 0)
def divc(a: int, b: int) -> bool:
    """
    pre: -6 <= b <= 6
    post: _
    """
    q = integer_divide(a, b, CTX)
    if b == 0:
        return q == 0
    m = modulo(a, b, CTX)
    if b > 0:
        return q * b <= a < q * b + b and m == a - q * b and type(q) is int
    return q * b >= a > q * b + b and m == a - q * b
def mul(a: int, b: int) -> bool:
    """
    post: _
    """
    r = multiply(a, b, CTX)
    return r == a * b and type(r) is int
