import itertools, signal, warnings
warnings.filterwarnings("ignore")
import vyxal.transpile as T
from vyxal.transpile import *
from vyxal.elements import *
from vyxal.context import Context
from vyxal.LazyList import LazyList
BASE = dict(vars(T))
class TO(Exception): pass
def handler(*a): raise TO()
signal.signal(signal.SIGALRM, handler)
def run(code, src):
    ctx=Context(); st=[src]; ctx.stacks.append(st); ns=dict(BASE); ns.update(ctx=ctx, stack=st)
    exec(transpile(code), ns); return st
CAT = {
 "map ƛ›;": "ƛ›;", "filter '₂;": "'₂;", "zip self z": "z", "zip Z with range": "₁ɾZ", "interleave Y": "₁ɾY", "prefixes K": "K",
 "cumsum ¦": "¦", "deltas ¯": "¯", "windows 3l": "₀l" , "chunks ẇ": "₀ẇ", "flatten f": "f", "uniquify U": "U", "enumerate ė": "ė",
 "prepend p": "₀p", "append J": "₀J", "slice-from ȯ": "₀ȯ", "vector +": "₀+", "vector *": "₀*", "vector -": "₀-", "vector <": "₀<", "double d":"d", "negate N":"N",
 "increment ›":"›", "head-remove Ḣ": "Ḣ", "every-2nd Ḟ":"₀Ḟ", "remove o":"₀o", "vmap v›": "v›", "map M": "⁽›M", "filter F":"⁽₂F", "insert Ṁ": "₀₁Ṁ",
 "group Ġ":"Ġ", "sublists ÞS":"ÞS", "all-slices": "₀Þs", "remove-at ⟇":"₀⟇", "union ∪": "₁ɾ∪", "truthy-idx T":"T", "uninterleave y": "y", "wrap2 2ẇ":"₄ẇ",
}
res={}
for name,code in CAT.items():
    row=[]
    for n in (1,2,5,10,20,40):
        pulls=[0]
        def src():
            i=0
            while True:
                i+=1; pulls[0]+=1; yield i
        ll=LazyList(src(), isinf=True)
        try:
            signal.alarm(5)
            st=run(code, ll)
            r=st[-1]
            _=[r[k] for k in range(n)] if isinstance(r,(LazyList,list)) else None
            signal.alarm(0)
            row.append(pulls[0])
        except TO:
            row.append("TIMEOUT"); break
        except BaseException as e:
            signal.alarm(0); row.append(type(e).__name__); break
    res[name]=row; print(f"{name:20s} {row}")
