"""Scratch spike: typed symbolic evaluation of the arithmetic element functions from the AST."""
import ast, sys, z3, itertools, time
SRC = open("/repo/vyxal/elements.py").read()
MOD = ast.parse(SRC)
FUNCS = {n.name: n for n in MOD.body if isinstance(n, ast.FunctionDef)}

class Unsupported(Exception): pass
PYINT, RAT, FLOAT, STR, LIST, FUN = "pyint", "rat", "float", "str", "list", "fun"
class V:
    def __init__(self, tag, val=None): self.tag, self.val = tag, val
    def real(self): return z3.ToReal(self.val) if self.tag == PYINT else self.val
def vy_type_of(v, simple=False):
    if v.tag in (PYINT, RAT, FLOAT):
        if v.tag == FLOAT: raise Unsupported("vy_type asserts on float")
        return "NUMBER_TYPE"
    return {STR: "str", LIST: "list", FUN: "types.FunctionType"}[v.tag]
def floor_real(x): return z3.ToInt(x)
FRESH = itertools.count()
class Ev:
    def __init__(self, env): self.env = env; self.side = []   # side constraints from nondeterministic stubs
    def ev(self, n):
        m = getattr(self, "ev_" + type(n).__name__, None)
        if m is None: raise Unsupported(ast.dump(n)[:60])
        return m(n)
    def ev_Name(self, n):
        if n.id in self.env: return self.env[n.id]
        if n.id in ("NUMBER_TYPE", "str", "list"): return ("T", n.id)
        raise Unsupported("name " + n.id)
    def ev_Attribute(self, n):
        s = ast.unparse(n)
        if s == "types.FunctionType": return ("T", s)
        raise Unsupported(s)
    def ev_Constant(self, n):
        if isinstance(n.value, bool): raise Unsupported("bool const")
        if isinstance(n.value, int): return V(PYINT, z3.IntVal(n.value))
        raise Unsupported("const")
    def ev_Tuple(self, n): return ("TT", tuple(self.ev(e) for e in n.elts))
    def ev_Subscript(self, n):
        base = self.ev(n.value); idx = n.slice.value if isinstance(n.slice, ast.Constant) else None
        if base[0] == "TT" and idx is not None: return base[1][idx]
        raise Unsupported("subscript")
    def ev_BinOp(self, n):
        a, b = self.ev(n.left), self.ev(n.right); op = type(n.op).__name__
        if not (isinstance(a, V) and isinstance(b, V)) or a.tag not in (PYINT, RAT, FLOAT) or b.tag not in (PYINT, RAT, FLOAT):
            raise Unsupported("binop on non-number")
        inexact = FLOAT in (a.tag, b.tag)
        if a.tag == PYINT and b.tag == PYINT:
            if op == "Add": return V(PYINT, a.val + b.val)
            if op == "Sub": return V(PYINT, a.val - b.val)
            if op == "Mult": return V(PYINT, a.val * b.val)
            if op == "Div": return V(FLOAT, z3.ToReal(a.val) / z3.ToReal(b.val))   # python: true division of ints is a float
            if op == "FloorDiv": return V(PYINT, floor_real(z3.ToReal(a.val) / z3.ToReal(b.val)))
            if op == "Mod": return V(PYINT, a.val - b.val * floor_real(z3.ToReal(a.val) / z3.ToReal(b.val)))
        x, y = a.real(), b.real(); tag = FLOAT if inexact else RAT
        if op == "Add": return V(tag, x + y)
        if op == "Sub": return V(tag, x - y)
        if op == "Mult": return V(tag, x * y)
        if op == "Div": return V(tag, x / y)
        if op == "FloorDiv": return V(tag, z3.ToReal(floor_real(x / y)))
        if op == "Mod": return V(tag, x - y * z3.ToReal(floor_real(x / y)))
        raise Unsupported(op)
    def ev_Compare(self, n):
        if len(n.ops) != 1: raise Unsupported("chain")
        a, b = self.ev(n.left), self.ev(n.comparators[0]); op = type(n.ops[0]).__name__
        if isinstance(a, V) and isinstance(b, V):
            x, y = a.real(), b.real()
            return ("B", {"Eq": x == y, "NotEq": x != y, "Lt": x < y}[op])
        if op in ("Eq", "Is"): return ("B", z3.BoolVal(a == b))
        raise Unsupported("compare")
    def ev_IfExp(self, n):
        c = self.ev(n.test); a, b = self.ev(n.body), self.ev(n.orelse)
        if c[0] != "B": raise Unsupported("cond")
        return ("ITE", c[1], a, b)
    def ev_Lambda(self, n): return ("LAM", n.body)
    def ev_Dict(self, n): return ("DICT", [(self.ev(k), v) for k, v in zip(n.keys, n.values)])
    def ev_Call(self, n):
        f = ast.unparse(n.func)
        if f == "vy_type":
            args = [self.ev(a) for a in n.args]
            ts = tuple(("T", vy_type_of(a)) for a in args)
            return ts[0] if len(ts) == 1 else ("TT", ts)
        if f in ("sympy.nsimplify", "vyxalify"):
            a = self.ev(n.args[0])
            if isinstance(a, tuple) and a[0] == "ITE": raise Unsupported("ite into stub")
            if a.tag in (PYINT, RAT): return a                      # stub: exact numbers come back unchanged
            r = z3.Real("ns%d" % next(FRESH))                       # stub: float -> some nearby rational
            self.side.append(z3.And(r - a.val <= z3.RealVal("1e-15") * z3.If(a.val >= 0, a.val, -a.val) + z3.RealVal("1e-15"),
                                    a.val - r <= z3.RealVal("1e-15") * z3.If(a.val >= 0, a.val, -a.val) + z3.RealVal("1e-15")))
            return V(RAT, r)
        # {...}.get(ts, default)()
        if isinstance(n.func, ast.Call) and isinstance(n.func.func, ast.Attribute) and n.func.func.attr == "get" and not n.args:
            d = self.ev(n.func.func.value); key = self.ev(n.func.args[0]); default = n.func.args[1]
            for k, lam in d[1]:
                if k == key: return self.ev(lam.body if isinstance(lam, ast.Lambda) else lam)
            return ("FALLBACK", ast.unparse(default))
        raise Unsupported("call " + f)
def run(fname, ta, tb):
    fn = FUNCS[fname]
    a = V(ta, z3.Int("a") if ta == PYINT else z3.Real("a")); b = V(tb, z3.Int("b") if tb == PYINT else z3.Real("b"))
    e = Ev({"lhs": a, "rhs": b, "ctx": ("CTX",)})
    for st in fn.body:
        if isinstance(st, ast.Expr) and isinstance(st.value, ast.Constant): continue
        if isinstance(st, ast.Assign): e.env[st.targets[0].id] = e.ev(st.value); continue
        if isinstance(st, ast.Return): return a, b, e.ev(st.value), e.side
        if isinstance(st, ast.If): raise Unsupported("if stmt (multiply) - spike skips")
        raise Unsupported(type(st).__name__)
def flatten(res):
    """ITE tree -> list of (guard, V)"""
    if isinstance(res, tuple) and res[0] == "ITE":
        out = []
        for g, v in flatten(res[2]): out.append((z3.And(res[1], g), v))
        for g, v in flatten(res[3]): out.append((z3.And(z3.Not(res[1]), g), v))
        return out
    return [(z3.BoolVal(True), res)]
SPEC = {"add": lambda x, y: x + y, "subtract": lambda x, y: x - y, "divide": lambda x, y: z3.If(y == 0, 0, x / y),
        "integer_divide": lambda x, y: z3.If(y == 0, 0, z3.ToReal(z3.ToInt(x / y))), "modulo": lambda x, y: x - y * z3.ToReal(z3.ToInt(x / y))}
for fname in ("add", "subtract", "divide", "integer_divide", "modulo"):
    for ta, tb in itertools.product((PYINT, RAT), repeat=2):
        t0 = time.time()
        try:
            a, b, res, side = run(fname, ta, tb)
        except Unsupported as u:
            print(fname, ta, tb, "INCONCLUSIVE unsupported:", u); continue
        s = z3.Solver(); s.set("timeout", 20000)
        for c in side: s.add(c)
        if fname == "modulo": s.add(b.real() != 0)
        bad = []
        for g, v in flatten(res):
            if not isinstance(v, V): bad.append(z3.And(g, z3.BoolVal(True))); continue
            ok = z3.And(z3.BoolVal(v.tag in (PYINT, RAT)), v.real() == SPEC[fname](a.real(), b.real()))
            bad.append(z3.And(g, z3.Not(ok)))
        s.add(z3.Or(bad))
        r = s.check()
        msg = str(r)
        if str(r) == "sat":
            m = s.model(); msg += " candidate a=%s b=%s" % (m[a.val], m[b.val])
        print(f"{fname:15s} {ta:6s} {tb:6s} {msg}  ({time.time()-t0:.2f}s)")
