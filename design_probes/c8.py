import itertools, random, warnings
warnings.filterwarnings("ignore")
import vyxal.helpers
from vyxal.LazyList import LazyList
from vyxal.helpers import deep_copy
def model_index(src,i):
    n=len(src)
    if i<0: return src[i] if -i<=n else "IndexError"
    if n==0: return 0
    return src[i % n] if i>=n else src[i]
OPS={}
def op(name):
    def d(f): OPS[name]=f; return f
    return d
@op("index")
def _(ll,src,a,b): return ll[a], model_index(src,a)
@op("negindex")
def _(ll,src,a,b):
    i=-abs(a)-1
    try: r=ll[i]
    except IndexError: r="IndexError"
    return r, model_index(src,i)
@op("slice")
def _(ll,src,a,b): return list(ll[a:b]) if a>=0 and b>=0 else None, src[a:b] if a>=0 and b>=0 else None
@op("slice_open")
def _(ll,src,a,b): return list(ll[abs(a):]), src[abs(a):]
@op("slice_neg_stop")
def _(ll,src,a,b): return list(ll[0:-abs(b)-1]) , src[0:-abs(b)-1]
@op("slice_step")
def _(ll,src,a,b): return list(ll[abs(a)::2]), src[abs(a)::2]
@op("slice_negstep")
def _(ll,src,a,b): return list(ll[None:None:-1]), src[::-1]
@op("len")
def _(ll,src,a,b): return len(ll), len(src)
@op("iter")
def _(ll,src,a,b): return list(ll), list(src)
@op("bool")
def _(ll,src,a,b): return bool(ll), bool(src)
@op("contains")
def _(ll,src,a,b): return bool(a in ll), a in src
@op("eq_list")
def _(ll,src,a,b): return bool(ll==list(src)), True
@op("eq_ll")
def _(ll,src,a,b): return bool(ll==LazyList(iter(list(src)))), True
@op("count")
def _(ll,src,a,b): return ll.count(a), src.count(a)
@op("reversed")
def _(ll,src,a,b): return list(ll.reversed()), src[::-1]
@op("copy")
def _(ll,src,a,b): return list(deep_copy(ll)), list(src)
@op("has_ind")
def _(ll,src,a,b): return bool(ll.has_ind(a)), 0<=a<len(src)
bad={}
random.seed(0)
vals=[0,1,2]
for n in range(0,4):
  for src in itertools.product(vals, repeat=n):
    src=list(src)
    for h in itertools.product(OPS, repeat=2):
      for a,b in ((0,1),(1,3),(2,2),(5,0)):
        ll=LazyList(iter(list(src)))
        for k,name in enumerate(h):
            try:
                got,exp=OPS[name](ll,src,a,b)
            except Exception as e:
                got,exp=("EXC "+type(e).__name__),"-"
            if got!=exp:
                key=(name, "first" if k==0 else "after "+h[0])
                bad.setdefault(key,(src,a,b,got,exp))
                break
for k,v in sorted(bad.items()): print(k, v)
print(len(bad))
