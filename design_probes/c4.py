import re, ast as _ast, collections
import vyxal.elements as E
from vyxal.lexer import tokenise, TokenType
from vyxal.parse import parse, STRUCTURE_INFORMATION, MONADIC_MODIFIERS, DYADIC_MODIFIERS, TRIADIC_MODIFIERS
from vyxal.encoding import codepage
from vyxal.structure import GenericStatement
exec(open('/tmp/probe/c3.py').read().split("docs = read_yaml")[0].split("def read_yaml")[1].join(["def read_yaml",""]) if False else "")
def read_yaml(path):
    docs=[]; cur=None
    for line in open(path, encoding='utf-8'):
        line=line.rstrip('\n')
        m=re.match(r'^- (element|modifier): (.*)$', line)
        if m:
            cur={}; docs.append(cur)
            v=m.group(2).split(' #')[0].strip()
            try: v=_ast.literal_eval(v)
            except Exception: pass
            cur[m.group(1)]=v; continue
        m=re.match(r'^  (arity|vectorise|name): (.*)$', line)
        if m and cur is not None:
            v=m.group(2).strip()
            if v in('true','false'): v=(v=='true')
            else:
                try: v=_ast.literal_eval(v)
                except Exception: pass
            cur[m.group(1)]=v
    return docs
docs=read_yaml('/repo/documents/knowledge/elements.yaml')
print("codepage distinct:", len(set(codepage)))
# keys lexing
bad=[k for k in E.elements if not (len(t:=tokenise(k))==1 and t[0].name==TokenType.GENERAL and t[0].value==k)]
print("keys not single GENERAL token:", bad)
print("key chars outside codepage:", [k for k in list(E.elements)+list(E.modifiers) if any(c not in codepage for c in k)])
shadow=[k for k in E.elements if not (len(p:=parse(tokenise(k)))==1 and type(p[0]) is GenericStatement)]
print("keys shadowed by syntax:", shadow)
# duplicates in source
src=open('/repo/vyxal/elements.py').read(); tree=_ast.parse(src)
for node in _ast.walk(tree):
    if isinstance(node,_ast.AnnAssign) and getattr(node.target,'id','') in ('elements','modifiers'):
        keys=[k.value for k in node.value.keys]
        print(node.target.id, len(keys), "dups:", [k for k,c in collections.Counter(keys).items() if c>1])
# arity
ydocs={d['element']:d for d in docs if 'element' in d}
mism=[(k,ydocs[k].get('arity'),E.elements[k][1]) for k in ydocs if k in E.elements and ydocs[k].get('arity')!=E.elements[k][1]]
print("arity mismatches", len(mism), mism)
print("yaml elements missing from table:", [k for k in ydocs if k not in E.elements and k not in STRUCTURE_INFORMATION and k not in "])};⟩|Xx" and k not in MONADIC_MODIFIERS+DYADIC_MODIFIERS+TRIADIC_MODIFIERS][:40])
print("table keys missing from yaml:", [k for k in E.elements if k not in ydocs])
