import itertools, signal, io, contextlib, sys, random, copy, warnings
warnings.filterwarnings("ignore")
import sympy
import vyxal.transpile as T
from vyxal.transpile import *
from vyxal.elements import *
from vyxal.context import Context
from vyxal.LazyList import LazyList
BASE = dict(vars(T))
class TO(Exception): pass
def handler(*a): raise TO()
signal.signal(signal.SIGALRM, handler)
def lam(ar=1, body="₀"):
    ctx=Context(); st=[]; ns=dict(BASE); ns.update(ctx=ctx, stack=st)
    exec(transpile("λ%d|%s;"%(ar,body)), ns); return st[-1]
def snap(x):
    if isinstance(x, list): return ["L"]+[snap(y) for y in x]
    if isinstance(x, LazyList): return "LL"
    return repr(x)
def force(x, d=0):
    if d>3: return
    if isinstance(x, LazyList):
        for i,y in enumerate(x):
            force(y,d+1)
            if i>20: break
    elif isinstance(x, list):
        for y in x: force(y,d+1)
POOL = [lambda: 2, lambda: "ab", lambda: [3,1,2], lambda: [[1,2],[3,4]], lambda: lam(1), lambda: 0, lambda: ["a","b"], lambda: [1,[2,[3]]], lambda: lam(2,"+")]
viol={}; 
for key,(tmpl,ar) in elements.items():
    if key in ("Q","ṁ","℅","ÞB","Þ℅","¨U","kD","kN","kḋ","kḊ","kð","□") or ar<1: continue
    for combo in itertools.islice(itertools.product(range(len(POOL)), repeat=ar), 0, 500):
        args=[POOL[i]() for i in combo]
        if not any(isinstance(a,list) for a in args): continue
        before=[snap(a) for a in args]
        stack=[[101]]+args
        ctx=Context(); ctx.stacks.append(stack); ctx.inputs[0][0]=[9,8,7]
        ns=dict(BASE); ns.update(ctx=ctx, stack=stack)
        try:
            signal.alarm(3)
            with contextlib.redirect_stdout(io.StringIO()):
                exec(tmpl, ns)
                for x in stack: force(x)
            signal.alarm(0)
        except BaseException as e:
            signal.alarm(0); continue
        after=[snap(a) for a in args]
        if after!=before:
            viol.setdefault(key,[]).append((combo,before,after))
print("elements mutating a list argument:", len(viol))
for k,v in viol.items(): print("  ",k, v[0])
