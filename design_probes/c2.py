import sympy, fractions, random, io, contextlib
from vyxal.elements import *
from vyxal.context import Context
from vyxal.transpile import transpile
from vyxal.lexer import tokenise
from vyxal.parse import parse
from vyxal.LazyList import LazyList
from vyxal.helpers import *
ctx=Context()
def run(code, inputs=[], flags=None):
    ctx = Context(); stack=[]; ctx.inputs[0][0]=list(inputs); ctx.stacks.append(stack)
    py = transpile(code)
    ns = dict(globals()); ns.update(ctx=ctx, stack=stack)
    exec(py, ns)
    return stack, ctx
# to_base at powers
bad=[]
for b in range(2,40):
    for k in range(1,40):
        for n in (b**k-1,b**k,b**k+1):
            try:
                d=to_base(n,b,ctx)
                back=from_base(d,b,ctx)
                if back!=n or any(not (0<=x<b) for x in d): bad.append((n,b,d))
            except Exception as e: bad.append((n,b,repr(e)))
print("to_base bad",len(bad),bad[:5])
# number compress
badc=[]
for n in list(range(1,3000))+[255**k+d for k in range(1,30) for d in (-1,0,1)]:
    s=base_255_number_compress(n,ctx)
    st,_=run(s)
    if not st or st[-1]!=n: badc.append((n,s,st[-1:]))
print("numcompress bad",len(badc),badc[:5])
# LazyList negative index doubling
l=LazyList(iter([1,2,3])); print(l[-1], len(l), list(l))
# deep_copy aliasing
st,_=run("⟨1|2|3⟩:0 5Ȧ"); print("assign after dup:", [simplify(x) for x in st])
st,_=run("?:0 5Ȧ",[[1,2,3]]); print("assign after dup (input list):", [simplify(x) for x in st])
# break leak
st,c=run("3(X)"); print("ctxvals after for-break", c.context_values, len(c.inputs), len(c.stacks), len(c.function_stack))
st,c=run("3(x)"); print("ctxvals after for-continue", c.context_values)
st,c=run("1{X}"); print("ctxvals after while-break", c.context_values)
st,c=run("1λX;†"); print("after lambda-break", c.context_values, len(c.inputs), len(c.stacks), len(c.function_stack))
st,c=run("@f|1X;@f;"); print("after fn-break", c.context_values, len(c.inputs), len(c.stacks), len(c.function_stack))
buf=io.StringIO()
with contextlib.redirect_stdout(buf):
    st,c=run("3ɾ,")
print("after print lazylist", c.context_values, len(c.inputs), len(c.stacks), len(c.function_stack), repr(buf.getvalue()))
# literal payloads
for p in ["[`|`|2]", "[`a`|2]", "[\\||2]", "[\\a|2]", "1«X«2", "1«a«2", "(⁺X)", "(⁺a)", "«v«+", "‛|a"]:
    print(p, parse(tokenise(p)))
# input cycling
st,c=run("????",[1,2,3]); print("inputs cyc", st)
st,c=run("+++",[1,2,3]); print("implicit", st)
st,c=run("????",[]); print("no inputs", st)
