from typing import List
import builtins, secrets
from vyxal.transpile import *
from vyxal.elements import *
from vyxal.context import Context
from vyxal.helpers import *
from vyxal.LazyList import *

CODE1 = transpile("?[₀|u]?(n+)")   # if input then 10 else -1 ; for-loop over range(input) adding n
CODE2 = transpile("?(n₀=[X])")     # loop with break
print(CODE2)
from crosshair.tracers import NoTracing
BASE_NS = dict(globals())
def _noinput(*a):
    raise EOFError

def run(code, inputs):
    ctx = Context()
    stack = []
    ctx.inputs[0][0] = list(inputs)
    ctx.stacks.append(stack)
    with NoTracing():
        ns = dict(BASE_NS)
    ns['ctx']=ctx; ns['stack']=stack
    exec(code, ns)
    return stack, ctx

def prog1(a: int, b: int) -> int:
    """
    pre: -1 <= b <= 3
    post: True
    """
    stack, ctx = run(CODE1, [a, b])
    exp = 10 if a != 0 else -1
    for n in range(1, b + 1):
        exp = exp + n
    assert len(stack) == 1 and stack[0] == exp, (stack, exp)
    assert len(ctx.context_values) == 1 and len(ctx.inputs) == 1 and len(ctx.stacks) == 1
    return 0

def prog2(b: int) -> int:
    """
    pre: 0 <= b <= 12
    post: _ == 1
    """
    stack, ctx = run(CODE2, [b])
    return len(ctx.context_values)

def prog1_twin(a: int, b: int) -> int:
    """
    pre: -1 <= b <= 3
    post: True
    """
    stack, ctx = run(CODE1, [a, b])
    exp = 10 if a != 7 else -1
    for n in range(1, b + 1):
        exp = exp + n
    assert len(stack) == 1 and stack[0] == exp, (stack, exp)
    return 0

def prog1_twin2(a: int, b: int) -> int:
    """
    pre: -1 <= b <= 3
    post: True
    """
    stack, ctx = run(CODE1, [a, b])
    assert not (b == 3 and a == 12345)
    return 0

CODE3 = transpile("3?+2*")
def prog3(a: int) -> int:
    """
    post: True
    """
    stack, ctx = run(CODE3, [a])
    assert stack[0] == (3 + a) * 2, stack
    assert not (a == 424242)
    return 0

CODE4 = transpile("?λ2|+;†")   # lambda arity 2 called: implicit input cycles lambda args? 
CODE5 = transpile("??/")
def prog5(a: int, b: int) -> int:
    """
    pre: b != 0
    post: True
    """
    stack, ctx = run(CODE5, [a, b])
    assert stack[0] * b == a, stack
    return 0
