"""Scratch spike of the C01 reference interpreter (tree walking over parse() output)."""
import random, re, sys, io, contextlib, types, signal, warnings
warnings.filterwarnings("ignore")
import secrets
import vyxal.transpile as T
from vyxal.transpile import transpile
from vyxal.lexer import tokenise, TokenType
from vyxal.parse import parse
from vyxal import structure as S
import vyxal.elements as E
from vyxal.elements import *
from vyxal.helpers import *
from vyxal.context import Context
from vyxal.LazyList import LazyList

# key -> function from the *docstrings* ("Element X"), not from the elements table
DOC = {}
for name, f in vars(E).items():
    if isinstance(f, types.FunctionType) and f.__doc__:
        m = re.match(r"\s*Elements? (\S+)", f.__doc__)
        if m: DOC.setdefault(m.group(1), f)
CORE = {"+": (add, 2), "-": (subtract, 2), "*": (multiply, 2), "<": (less_than, 2), ">": (greater_than, 2), "=": (equals, 2),
        "N": (negate, 1), "›": (increment, 1), "‹": (decrement, 1), "∑": (vy_sum, 1), "L": (length, 1), "h": (head, 1), "t": (tail, 1),
        "J": (merge, 2), "M": (vy_map, 2), "F": (vy_filter, 2), "ṡ": (sort_by, 2), "Ṙ": (reverse, 1), "R": None}
NILADS = {"₀": 10, "₁": 100, "₄": 26, "₆": 64, "u": -1, "¤": "", "ð": " "}
class Break(Exception): pass
class Continue(Exception): pass
class Return(Exception):
    def __init__(self, v): self.v = v

class Ref:
    def __init__(self, inputs):
        self.ctx = Context()            # only used as the flag/argument object handed to element functions
        self.stack = []
        self.context = [0]
        self.scopes = [[list(inputs), 0]]
        self.vars = {}; self.ghost = 0; self.register = 0
        self.out = []
    # ---- input
    def read_scope(self, scope):
        vals = scope[0]
        if vals:
            v = vals[scope[1] % len(vals)]; scope[1] += 1; return v
        return 0
    def implicit(self):
        sc = self.scopes[-1]
        if sc[0]: return self.read_scope(sc)
        if len(self.scopes) == 1: return 0
        return 0
    def pop(self, stack, k=1):
        got = []
        for _ in range(k):
            got.append(stack.pop() if stack else self.implicit())
        return got[0] if k == 1 else got
    def popn(self, stack, k):
        """k values in stack order (deepest first)"""
        got = [stack.pop() if stack else self.implicit() for _ in range(k)]
        return got[::-1]
    # ---- function values: python callables following the lambda protocol, so real elements can call them
    def make_lambda(self, arity, body):
        ref = self
        def _lambda_ref(arg_stack, self_fn, arity_=-1, ctx=None):
            k = arity_ if arity_ != -1 else getattr(self_fn, "stored_arity", arity)
            args = ref.popn(arg_stack, k)[::-1] if k != 1 else ref.popn(arg_stack, k)
            st = list(args)
            ref.context.append(list(args) if len(args) != 1 else args[0])
            ref.scopes.append([list(args)[::-1], 0])
            try:
                try:
                    ref.run(body, st, ("lambda", _lambda_ref))
                    res = ref.pop(st)
                except Return as r:
                    res = r.v
            finally:
                ref.context.pop(); ref.scopes.pop()
            return [res]
        _lambda_ref.__name__ = "_lambda_ref"
        _lambda_ref.arity = arity
        return _lambda_ref
    def call(self, fn, stack):
        stack += fn(stack, fn, ctx=self.ctx)
    def apply(self, fn, *args):
        return safe_apply(fn, *args, ctx=self.ctx)
    # ---- running
    def run(self, prog, stack, parent):
        for st in prog: self.step(st, stack, parent)
    def truthy(self, v): return boolify(v, self.ctx)
    def iter_source(self, x):
        if isinstance(x, int) or is_sympy(x): return list(range(self.ctx.range_start, int(x) + self.ctx.range_end))
        return x
    def step(self, st, stack, parent):
        if isinstance(st, S.GenericStatement): return self.token(st.branches[0][0], stack)
        if isinstance(st, S.IfStatement):
            br = st.branches
            c = self.pop(stack)
            i = 0
            while True:
                if self.truthy(c): return self.run(br[i], stack, parent)
                if i + 2 < len(br):          # else-if: br[i+1] is condition code, br[i+2] its branch
                    self.run(br[i + 1], stack, parent); c = self.pop(stack); i += 2; continue
                if i + 1 < len(br): return self.run(br[i + 1], stack, parent)
                return
        if isinstance(st, S.ForLoop):
            x = self.pop(stack)
            for item in self.iter_source(x):
                if st.names and st.names[0]: self.vars[st.names[0]] = item
                elif st.names: self.ghost = item
                self.context.append(item)
                try:
                    self.run(st.body, stack, ("loop", None))
                except Break:
                    self.context.pop(); break
                except Continue:
                    self.context.pop(); continue
                self.context.pop()
            return
        if isinstance(st, S.WhileLoop):
            def cond():
                for c in st.condition:
                    self.step(c, stack, parent) if isinstance(c, S.Structure) else stack.append(1)
                return self.pop(stack)
            c = cond()
            fuse = 0
            while self.truthy(c):
                fuse += 1
                if fuse > 50: raise RuntimeError("fuse")
                self.context.append(c)
                try: self.run(st.body, stack, ("loop", None))
                except Break: self.context.pop(); break
                except Continue: pass
                else: pass
                self.context.pop() if len(self.context) > 1 and self.context[-1] is c else None
                c = cond()
            return
        if isinstance(st, S.LambdaOp):
            fn = self.make_lambda(1, st.lam.body); stack.append(fn)
            f, ar = CORE[st.after]
            rhs, lhs = self.pop(stack), self.pop(stack)
            stack.append(f(lhs, rhs, self.ctx)); return
        if isinstance(st, S.Lambda):
            ar = self.ctx.default_arity if st.arity == "default" else st.arity
            stack.append(self.make_lambda(ar, st.body)); return
        if isinstance(st, S.ListLiteral):
            out = []
            for it in st.items:
                cp = [deep_copy(v) for v in stack]
                self.run(it, cp, parent)
                if cp: out.append(cp.pop())
            stack.append(out); return
        if isinstance(st, S.FunctionDef):
            ref = self; params = st.parameters; body = st.body
            def VAR_ref(arg_stack, self_fn, arity=-1, ctx=None):
                cs = []
                saved = dict(ref.vars)
                for p in params:
                    if p.isnumeric(): cs += (ref.popn(arg_stack, int(p))[::-1])
                    elif p == "*": cs += ref.popn(arg_stack, ref.pop(arg_stack))
                    else: ref.vars[p] = ref.pop(arg_stack)
                ref.context.append(list(cs)); ref.scopes.append([list(cs)[::-1], 0])
                try:
                    try: ref.run(body, cs, ("function", VAR_ref))
                    except Return as r: pass
                finally:
                    ref.context.pop(); ref.scopes.pop()
                return cs
            VAR_ref.__name__ = "VAR_" + st.name
            self.vars["@" + st.name] = VAR_ref; return
        if isinstance(st, S.FunctionCall):
            fn = self.vars["@" + st.name]; stack += fn(stack, None, ctx=self.ctx); return
        if isinstance(st, S.BreakStatement):
            raise Break()
        if isinstance(st, S.RecurseStatement):
            raise Continue()
        raise NotImplementedError(type(st).__name__)
    def token(self, tok, stack):
        k, v = tok.name, tok.value
        if k == TokenType.GENERAL:
            if v in NILADS: stack.append(NILADS[v]); return
            if v == "?": stack.append(self.read_scope(self.scopes[0])); return
            if v == ":": t = self.pop(stack); stack.append(deep_copy(t)); stack.append(t); return
            if v == "$": b = self.pop(stack); a = self.pop(stack); stack.append(b); stack.append(a); return
            if v == "_": self.pop(stack); return
            if v == "!": stack.append(len(stack)); return
            if v == "n": stack.append(self.context[-1]); return
            if v == "£": self.register = self.pop(stack); return
            if v == "¥": stack.append(self.register); return
            if v == "†":
                f = self.pop(stack); stack += f(stack, f, ctx=self.ctx); return
            if v in CORE:
                f, ar = CORE[v]; args = self.popn(stack, ar); stack.append(f(*args, self.ctx)); return
            if v in " \n": return
            raise NotImplementedError("element " + v)
        if k == TokenType.VARIABLE_SET:
            if v == "": self.ghost = self.pop(stack)
            else: self.vars[v] = self.pop(stack)
            return
        if k == TokenType.VARIABLE_GET:
            stack.append(self.ghost if v == "" else self.vars[v]); return
        if k == TokenType.STRING: stack.append(v); return
        raise NotImplementedError(str(k))

def real(code, inputs):
    ctx = Context(); stack = []; ctx.inputs[0][0] = list(inputs); ctx.stacks.append(stack)
    ns = dict(vars(T)); ns.update(ctx=ctx, stack=stack)
    exec(transpile(code), ns); return stack
def norm(x):
    if isinstance(x, (list, LazyList)): return [norm(y) for y in x]
    if isinstance(x, types.FunctionType): return "<fn>"
    return simplify(x)

# ---- random programs over the closed core
random.seed(int(sys.argv[1]) if len(sys.argv) > 1 else 1)
LEAVES = ["₀", "u", "?", "?", ":", "$", "_", "!", "+", "-", "*", "<", "=", "N", "›", "n", "→v", "←v", "£", "¥", "∑", "L", "h", "J"]
def prog(d): return "".join(item(d) for _ in range(random.randint(1, 3)))
def item(d):
    if d == 0 or random.random() < 0.5: return random.choice(LEAVES)
    k = random.choice(["if", "if2", "if3", "for", "forv", "lam", "lam2", "map", "filt", "list", "list2", "fdef", "brk", "cont"])
    p = lambda: prog(d - 1)
    return {"if": lambda: "?[" + p() + "]", "if2": lambda: "?[" + p() + "|" + p() + "]", "if3": lambda: "?[" + p() + "|?|" + p() + "|" + p() + "]",
            "for": lambda: "₀h?J(" + p() + ")" if False else "?(" + p() + ")", "forv": lambda: "?(v|" + p() + ")",
            "lam": lambda: "λ" + p() + ";†", "lam2": lambda: "λ2|" + p() + ";†", "map": lambda: "?ƛ" + p() + ";", "filt": lambda: "?'" + p() + ";",
            "list": lambda: "⟨" + p() + "⟩", "list2": lambda: "⟨" + p() + "|" + p() + "⟩", "fdef": lambda: "@g:1:a|" + p() + ";@g;",
            "brk": lambda: "?(" + p() + "?[X]" + p() + ")", "cont": lambda: "?(" + p() + "?[x]" + p() + ")"}[k]()
class TO(Exception): pass
signal.signal(signal.SIGALRM, lambda *a: (_ for _ in ()).throw(TO()))
agree = 0; dis = []; skipped = 0
for it in range(int(sys.argv[2]) if len(sys.argv) > 2 else 3000):
    code = "0→v" .replace("0", "₀") + prog(3)
    inputs = [random.choice([0, 1, 2, 3, -1, [1, 2], [0, 3, 1], []]) for _ in range(random.randint(1, 3))]
    try:
        signal.alarm(3)
        with contextlib.redirect_stdout(io.StringIO()):
            r = norm(real(code, [deep_copy(x) if isinstance(x, list) else x for x in inputs]))
        signal.alarm(0)
    except BaseException as e:
        signal.alarm(0); r = "EXC " + type(e).__name__
    try:
        signal.alarm(3)
        ref = Ref([list(x) if isinstance(x, list) else x for x in inputs]); ref.run(parse(tokenise(code)), ref.stack, ("top", None))
        o = norm(ref.stack)
        signal.alarm(0)
    except BaseException as e:
        signal.alarm(0); o = "EXC " + type(e).__name__
    if isinstance(r, str) and isinstance(o, str) and r.startswith("EXC") and o.startswith("EXC"): skipped += 1; continue
    if r == o: agree += 1
    else: dis.append((code, inputs, r, o))
print("agree", agree, "disagree", len(dis), "both-raise", skipped)
for d in sorted(dis, key=lambda x: len(x[0]))[:14]: print(d)
