from typing import List
from vyxal.helpers import to_base_digits, from_base_digits, to_base_alphabet, from_base_alphabet, uncompress_num, uncompress_str
from vyxal.encoding import codepage_number_compress, codepage_string_compress, compression, base_27_alphabet
from vyxal.lexer import tokenise, TokenType
from vyxal.parse import parse
B = 255
def kern(n: int) -> bool:
    """
    pre: 0 <= n < 255 * 255 * 255
    post: _
    """
    d = to_base_digits(n, B)
    return from_base_digits(d, B) == n and all(0 <= x < B for x in d) and len(d) <= 3

def kern_symbase(n: int, b: int) -> bool:
    """
    pre: 2 <= b <= 300 and 0 <= n < b * b
    post: _
    """
    d = to_base_digits(n, b)
    return from_base_digits(d, b) == n and all(0 <= x < b for x in d)

def alpha(n: int) -> bool:
    """
    pre: 0 <= n < 255 * 255
    post: _
    """
    s = to_base_alphabet(n, codepage_number_compress)
    toks = tokenise("»" + s + "»")
    return len(toks) == 1 and toks[0].name == TokenType.COMPRESSED_NUMBER and uncompress_num(toks[0].value) == n

A = codepage_number_compress
def alpha_inv(i: int) -> bool:
    """
    pre: 0 <= i < 255
    post: _
    """
    return A.find(A[i]) == i and A[i] != "»"

def from_alpha(s: str) -> bool:
    """
    pre: len(s) == 2 and s[0] in A and s[1] in A
    post: _
    """
    v = from_base_alphabet(s, A)
    return v == A.find(s[0]) * 255 + A.find(s[1]) and 0 <= v < 255 * 255

def lex_cnum(s: str) -> bool:
    """
    pre: 1 <= len(s) <= 3 and all(c in A for c in s)
    post: _
    """
    toks = tokenise("1»" + s + "»2")
    return len(toks) == 3 and toks[1].name == TokenType.COMPRESSED_NUMBER and toks[1].value == s
