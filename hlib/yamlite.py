"""Line-oriented reader for documents/knowledge/elements.yaml (PyYAML is not installed anywhere in the image)."""
import ast
import re


def _unq(v):
    v = v.strip()
    if len(v) >= 2 and v[0] == v[-1] and v[0] in "\"'":
        if v[0] == '"':
            try:
                return ast.literal_eval(v)
            except Exception:  # noqa
                return v[1:-1]
        return v[1:-1].replace("''", "'")
    return v


def read_elements(path):
    """returns a list of dicts: element, name, arity (raw text), vectorise (bool or None), modifier (bool)"""
    out = []
    cur = None
    for line in open(path, encoding="utf-8"):
        m = re.match(r"^- (element|modifier): (.*)$", line.rstrip("\n"))
        if m:
            cur = {"element": _unq(m.group(2)), "is_modifier": m.group(1) == "modifier", "arity": None, "vectorise": None, "name": None}
            out.append(cur)
            continue
        if cur is None:
            continue
        m = re.match(r"^  (name|arity|vectorise): (.*)$", line.rstrip("\n"))
        if m:
            k, v = m.group(1), _unq(m.group(2))
            if k == "vectorise":
                cur[k] = v.strip().lower() == "true"
            else:
                cur[k] = v
    return out
