"""pydecode: pure-Python model of CPython's decoding of a (non-raw, non-bytes) double-quoted string literal body.

Stub for `exec` of a string constant (which would realise a symbolic string). Validated against the real
compiler on every path witness (props/c06.py post step) and on a fixed corpus.
Returns None when the body is not exactly one well-formed literal body, or uses an escape this model does
not cover (\\N{..}, \\u, \\U) - callers treat None as 'not decided', never as success.
"""
SIMPLE = {"\\": "\\", "'": "'", '"': '"', "a": "\a", "b": "\b", "f": "\f", "n": "\n", "r": "\r", "t": "\t", "v": "\v"}
OCT = "01234567"
HEX = "0123456789abcdefABCDEF"


def pydecode(body):
    out = []
    i = 0
    n = len(body)
    while i < n:
        c = body[i]
        if c == '"' or c == "\n" or c == "\r" or c == "\x00":
            return None  # would end the literal / the line, or cannot be compiled at all
        if c != "\\":
            out.append(c)
            i += 1
            continue
        if i + 1 >= n:
            return None  # a trailing backslash would escape the closing quote
        d = body[i + 1]
        if d == "\\":
            out.append("\\")
            i += 2
        elif d == '"':
            out.append('"')
            i += 2
        elif d == "n":
            out.append("\n")
            i += 2
        elif d == "'":
            out.append("'")
            i += 2
        elif d == "\n":
            i += 2  # line continuation
        elif d in "abfrtv":
            out.append(SIMPLE[d])
            i += 2
        elif d in OCT:
            j = i + 1
            v = 0
            while j < n and j < i + 4 and body[j] in OCT:
                v = v * 8 + OCT.index(body[j])
                j += 1
            if v > 0o377:
                return None
            out.append(chr(v))
            i = j
        elif d == "x":
            if i + 4 > n:
                return None
            h = body[i + 2 : i + 4]
            if len(h) != 2 or h[0] not in HEX or h[1] not in HEX:
                return None
            out.append(chr(int(h, 16)))
            i += 4
        elif d in "NuU":
            return None
        elif d == "\r" or d == "\x00":
            return None
        else:
            out.append("\\")
            out.append(d)
            i += 2
    return "".join(out)
