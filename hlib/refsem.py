"""refsem - reference interpreter for C01 (DESIGN.md C01): the documented structure semantics applied directly to the tree
that the real parser returned. It owns the stack, the context stack, input scopes, variables, the call protocol, loops, X / x and
the output flags. For core elements it pops `arity` values and calls the element's Python *function*; it never looks at an
element template and never at transpile.py.
"""
import types

from hlib.common import *  # noqa

S = STRUCT

# element key -> (name of the element function in vyxal.elements, arity)   [arity as documented in elements.yaml]
CORE = {
    "+": ("add", 2), "-": ("subtract", 2), "*": ("multiply", 2), "<": ("less_than", 2), ">": ("greater_than", 2), "N": ("negate", 1), "›": ("increment", 1), "‹": ("decrement", 1),
    "∑": ("vy_sum", 1), "L": ("length", 1), "h": ("head", 1), "t": ("tail", 1), "M": ("vy_map", 2), "F": ("vy_filter", 2), "ṡ": ("sort_by", 2), "Ṙ": ("reverse", 1), "s": ("vy_sort", 1),
    "U": ("uniquify", 1), "ɾ": ("inclusive_one_range", 1), "G": ("monadic_maximum", 1), "g": ("monadic_minimum", 1), "∷": ("parity", 1), "ȧ": ("vy_abs", 1), "Ḣ": ("head_remove", 1), "Ṫ": ("tail_remove", 1),
    "¦": ("cumulative_sum", 1), "f": ("deep_flatten", 1), "∴": ("dyadic_maximum", 2), "∵": ("dyadic_minimum", 2),
}
NILADS = {"₀": 10, "₁": 100, "₄": 26, "₆": 64, "u": -1, "¤": "", "ð": " "}


class Break(Exception):
    pass


class Continue(Exception):
    pass


class Return(Exception):
    pass


class Fuse(Exception):
    pass


class Ref:
    def __init__(self, inputs, flags=""):
        self.ctx = Context()  # flag / argument object handed to element functions; its stacks are not used by the oracle
        if "Ṁ" in flags:
            self.ctx.range_start = 0
            self.ctx.range_end = 0
        elif "M" in flags:
            self.ctx.range_start = 0
        elif "m" in flags:
            self.ctx.range_end = 0
        self.flags = flags
        self.stack = [100] if "H" in flags else []
        self.ctx.stacks.append(self.stack)
        self.context = [0]
        self.scopes = [[list(inputs), 0]]
        self.vars = {}
        self.funcs = {}
        self.ghost = 0
        self.steps = 0
        self.readlog = []  # ('T' | 'S', scope depth, value) for every value delivered by an input read

    # ---- input (Input.md)
    def read_scope(self, scope, kind="T"):
        vals = scope[0]
        v = 0
        if vals:
            v = vals[scope[1] % len(vals)]
            scope[1] += 1
        self.readlog.append((kind, len(self.scopes), v))
        return v

    def implicit(self):
        if len(self.scopes) == 1:
            return self.read_scope(self.scopes[0], "T")  # no inputs, no STDIN: every read is 0
        return self.read_scope(self.scopes[-1], "S")

    def pop(self, stack):
        return stack.pop() if stack else self.implicit()

    def popped(self, stack, k):
        """k values in the order popped (top first)"""
        return [self.pop(stack) for _ in range(k)]

    def args(self, stack, k):
        """k values in stack order (deepest first): the order element functions take them"""
        return self.popped(stack, k)[::-1]

    # ---- function values follow the call protocol of Transpilation.md so that real elements (M F ṡ †, modifiers) can call them
    def make_lambda(self, arity, body):
        ref = self

        def _lambda_ref(arg_stack, self_fn, arity_=-1, ctx=None):
            if arity_ != -1:
                k = arity_
            elif "stored_arity" in dir(self_fn):
                k = self_fn.stored_arity
            else:
                k = arity
            st = ref.popped(arg_stack, k)  # callee stack = the arguments in the order popped
            ref.context.append(list(H.deep_copy(st)) if len(st) != 1 else H.deep_copy(st[0]))
            ref.scopes.append([list(H.deep_copy(st))[::-1], 0])
            ref.ctx.stacks.append(st)
            try:
                try:
                    ref.run(body, st, _lambda_ref)
                except Return:
                    pass
                res = ref.pop(st)
            finally:
                ref.context.pop()
                ref.scopes.pop()
                ref.ctx.stacks.pop()
            return [res]

        _lambda_ref.__name__ = "_lambda_ref"
        _lambda_ref.arity = arity
        return _lambda_ref

    def make_function(self, name, params, body):
        ref = self

        def VAR_ref(arg_stack, self_fn, arity=-1, ctx=None):
            cs = []
            saved = dict(ref.vars)
            for p in params:
                if p.isnumeric():
                    cs += ref.popped(arg_stack, int(p))
                elif p == "*":
                    raise NotImplementedError("star parameters")
                else:
                    ref.vars[p] = ref.pop(arg_stack)
            ref.context.append(list(cs))
            ref.scopes.append([list(cs)[::-1], 0])
            ref.ctx.stacks.append(cs)
            try:
                try:
                    ref.run(body, cs, VAR_ref)
                except Return:
                    pass
            finally:
                ref.context.pop()
                ref.scopes.pop()
                ref.ctx.stacks.pop()
                ref.vars = saved
            return cs  # the whole callee stack goes back to the caller

        VAR_ref.__name__ = "VAR_" + name
        return VAR_ref

    def wrap(self, struct):
        """a modifier operand as a function value (elements.yaml: single elements pass their arity on)"""
        if isinstance(struct, S.GenericStatement):
            tok = struct.branches[0][0]
            if tok.name in (TokenType.STRING, TokenType.NUMBER, TokenType.COMPRESSED_NUMBER, TokenType.COMPRESSED_STRING, TokenType.VARIABLE_GET, TokenType.CODEPAGE_NUMBER):
                return self.make_lambda(0, [struct])
            return self.make_lambda(self.arity_of(tok.value), [struct])
        if isinstance(struct, S.Lambda):
            ar = self.ctx.default_arity if struct.arity == "default" else struct.arity
            return self.make_lambda(ar, struct.body)
        return self.make_lambda(1, [struct])

    def arity_of(self, key):
        if key in CORE:
            return CORE[key][1]
        if key in NILADS or key in ("?", "n", "!", "¥", "W", "^"):
            return 0
        if key in (":", "_", "D", "w", ",", "£", "†"):
            return 1
        if key in ("$", '"'):
            return 2
        raise NotImplementedError("arity of " + key)

    def apply(self, fn, *args):
        return H.safe_apply(fn, *args, ctx=self.ctx)

    def truthy(self, v):
        return E.boolify(v, self.ctx)

    def iter_source(self, x):
        if isinstance(x, int) or H.is_sympy(x):
            return list(range(self.ctx.range_start, int(x) + self.ctx.range_end))
        return x

    # ---- running
    def run(self, prog, stack, this):
        for st in prog:
            self.step(st, stack, this)

    def tick(self):
        self.steps += 1
        if self.steps > 4000:
            raise Fuse()

    def step(self, st, stack, this):
        self.tick()
        if isinstance(st, Token):
            return self.token(st, stack)
        if isinstance(st, S.GenericStatement):
            return self.token(st.branches[0][0], stack)
        if isinstance(st, S.IfStatement):
            br = st.branches
            c = self.pop(stack)
            i = 0
            while True:
                if self.truthy(c):
                    return self.run(br[i], stack, this)
                if i + 2 < len(br):  # else-if chain: br[i+1] is condition code, br[i+2] its branch
                    self.run(br[i + 1], stack, this)
                    c = self.pop(stack)
                    i += 2
                    continue
                if i + 1 < len(br):
                    return self.run(br[i + 1], stack, this)
                return
        if isinstance(st, S.ForLoop):
            x = self.pop(stack)
            for item in self.iter_source(x):
                self.tick()
                if st.names:
                    nm = "".join(ch for ch in st.names[0] if ch.isascii() and (ch.isalnum() or ch == "_"))
                    if nm:
                        self.vars[nm] = item
                    else:
                        self.ghost = item
                self.context.append(item)
                try:
                    self.run(st.body, stack, this)
                except Break:
                    break
                except Continue:
                    continue
                finally:
                    self.context.pop()
            return
        if isinstance(st, S.WhileLoop):
            while True:
                self.tick()
                for c in st.condition:
                    self.step(c, stack, this)
                c = self.pop(stack)
                if not self.truthy(c):
                    break
                self.context.append(c)
                try:
                    self.run(st.body, stack, this)
                except Break:
                    break
                except Continue:
                    continue
                finally:
                    self.context.pop()
            return
        if isinstance(st, S.LambdaOp):
            fn = self.make_lambda(1, st.lam.body)
            stack.append(fn)
            return self.element(st.after, stack)
        if isinstance(st, S.Lambda):
            ar = self.ctx.default_arity if st.arity == "default" else st.arity
            stack.append(self.make_lambda(ar, st.body))
            return
        if isinstance(st, S.ListLiteral):
            out = []
            for it in st.items:
                cp = list(deep_copy_list(stack))
                self.run(it, cp, this)
                if cp:
                    out.append(cp.pop())
            stack.append(out)
            return
        if isinstance(st, S.FunctionDef):
            self.funcs[st.name] = self.make_function(st.name, st.parameters, st.body)
            return
        if isinstance(st, S.FunctionCall):
            fn = self.funcs[st.name]
            stack += fn(stack, None, ctx=self.ctx)
            return
        if isinstance(st, S.BreakStatement):
            p = st.parent_structure
            if p in (S.ForLoop, S.WhileLoop):
                raise Break()
            if p in (S.Lambda, S.FunctionDef):
                raise Return()
            return  # at top level / inside an if at top level / in a modifier operand: nothing to leave
        if isinstance(st, S.RecurseStatement):
            p = st.parent_structure
            if p in (S.ForLoop, S.WhileLoop):
                raise Continue()
            if p in (S.Lambda, S.FunctionDef):
                stack += this(stack, this, ctx=self.ctx)
                return
            raise NotImplementedError("recurse outside loop / lambda / function")
        if isinstance(st, S.MonadicModifier):
            return self.modifier(st.modifier, [st.function_A], stack)
        if isinstance(st, S.DyadicModifier):
            return self.modifier(st.modifier, [st.function_A, st.function_B], stack)
        raise NotImplementedError(type(st).__name__)

    def modifier(self, m, operands, stack):
        fs = [self.wrap(o) for o in operands]
        A = fs[0]
        if m == "v":  # map over the argument(s) without zipping
            a = self.args(stack, A.arity)
            stack.append(E.vectorise(A, *a, explicit=True, ctx=self.ctx))
        elif m == "ƒ":  # reduce
            A.stored_arity = 2
            stack.append(E.vy_reduce(A, self.pop(stack), self.ctx))
        elif m == "ɖ":  # cumulative reduce
            A.stored_arity = 2
            stack.append(H.scanl(A, self.pop(stack), self.ctx))
        elif m == "~":
            if A.arity >= 2:  # apply, keeping the operands
                a = self.args(stack, A.arity)
                stack.extend(a)
                stack.append(self.apply(A, *a))
            else:  # monads: filter
                stack.append(E.vy_filter(self.pop(stack), A, ctx=self.ctx))
        elif m == "ß":  # run if the popped value is truthy
            if self.truthy(self.pop(stack)):
                stack += A(stack, A, ctx=self.ctx)
        elif m in ("₌", "₍"):  # both functions on the same operands
            B = fs[1]
            cp = list(deep_copy_list(stack))
            a = self.args(cp, A.arity)
            b = self.args(stack, B.arity)
            ra, rb = self.apply(A, *a), self.apply(B, *b)
            if m == "₌":
                stack.append(ra)
                stack.append(rb)
            else:
                stack.append([ra, rb])
        elif m == "&":  # apply to the register
            stack.append(self.ctx.register)
            self.ctx.register = self.apply(A, *self.args(stack, A.arity))
        else:
            raise NotImplementedError("modifier " + m)

    def element(self, v, stack):
        if v in NILADS:
            stack.append(NILADS[v])
        elif v == "?":
            stack.append(self.read_scope(self.scopes[0]))
        elif v == ":":
            t = self.pop(stack)
            stack.append(H.deep_copy(t))
            stack.append(t)
        elif v == "D":
            t = self.pop(stack)
            stack.append(t)
            stack.append(H.deep_copy(t))
            stack.append(H.deep_copy(t))
        elif v == "$":
            b = self.pop(stack)
            a = self.pop(stack)
            stack.append(b)
            stack.append(a)
        elif v == "_":
            self.pop(stack)
        elif v == "!":
            stack.append(len(stack))
        elif v == "w":
            stack.append([self.pop(stack)])
        elif v == '"':
            a = self.args(stack, 2)
            stack.append([a[0], a[1]])
        elif v == "W":
            t = list(deep_copy_list(stack))
            del stack[:]
            stack.append(t)
        elif v == "^":
            stack.reverse()
        elif v == "n":
            stack.append(self.context[-1])
        elif v == "£":
            self.ctx.register = self.pop(stack)
        elif v == "¥":
            stack.append(self.ctx.register)
        elif v == ",":
            E.vy_print(self.pop(stack), ctx=self.ctx)
        elif v == "†":
            f = self.pop(stack)
            if isinstance(f, types.FunctionType):
                stack += f(stack, f, ctx=self.ctx)
            else:  # the non-function overloads of the call element are ordinary element semantics
                stack.append(f)
                r = E.function_call(stack, self.ctx)
                if r is not None:
                    stack.append(r)
        elif v in CORE:
            name, ar = CORE[v]
            stack.append(getattr(E, name)(*self.args(stack, ar), ctx=self.ctx))
        elif v in " \n":
            return
        else:
            raise NotImplementedError("element " + v)

    def token(self, tok, stack):
        k, v = tok.name, tok.value
        if k == TokenType.GENERAL:
            return self.element(v, stack)
        if k == TokenType.VARIABLE_SET:
            if v == "":
                self.ghost = self.pop(stack)
            else:
                self.vars[v] = self.pop(stack)
            return
        if k == TokenType.VARIABLE_GET:
            stack.append(self.ghost if v == "" else self.vars[v])
            return
        if k == TokenType.STRING:
            stack.append(v)
            return
        if k == TokenType.NUMBER:
            stack.append(BASE_NS["sympy"].Rational(v) if "." in v else BASE_NS["sympy"].nsimplify(v))
            return
        raise NotImplementedError(str(k))

    # ---- end of program: implicit output and the output flags (flag help text of main.py)
    def finish(self):
        stack, ctx, flags = self.stack, self.ctx, self.flags
        originally_empty = not stack
        output = self.pop(stack)
        for flag in flags:
            if flag == "j":
                output = E.join(output, "\n", ctx)
            elif flag == "s":
                output = E.vy_sum(output, ctx)
            elif flag == "W":
                if originally_empty:
                    output = []
                else:
                    stack.append(output)
                    output = E.vy_str(stack, ctx)
        if not (ctx.printed or "O" in flags) or "o" in flags:
            E.vy_print(output, ctx=ctx)


def deep_copy_list(stack):
    return [H.deep_copy(v) if isinstance(v, (list, LazyList)) else v for v in stack]


def norm(x, depth=5):
    """comparable image of a stack value: lists forced, function values opaque"""
    if isinstance(x, (list, LazyList, tuple)):
        if depth <= 0:
            return "<deep>"
        return [norm(y, depth - 1) for y in x]
    if isinstance(x, types.FunctionType):
        return "<fn>"
    return x


def run_reference(tree, inputs, flags="", finish=False):
    del PRINTED[:]
    ref = Ref(inputs, flags)
    ref.run(tree, ref.stack, None)
    st = norm(ref.stack)
    if finish:
        ref.finish()
    return st, printed_text(), ref


def run_real(code, inputs):
    del PRINTED[:]
    ctx = Context()
    ctx.inputs[0][0] = list(inputs)
    stack = []
    ctx.stacks.append(stack)
    ns = fresh_ns(ctx, stack)
    exec(code, ns)
    return norm(stack), printed_text(), ctx
