"""Skeleton generator for C01 / program-level checks: random derivations of the structure grammar over the closed core,
with a type discipline that keeps programs total on small integer inputs (DESIGN.md 2.5)."""
import random

LEAVES = ["₀", "u", "?", "?", ":", "$", "_", "!", "+", "-", "*", "<", ">", "N", "›", "‹", "n", "→v", "←v", "£", "¥", "w", '"', "D", "^", ","]
PURE = ["₀", "u", ":", "$", "_", "+", "-", "*", "<", ">", "N", "›", "‹", "n", "w", '"', "←v"]
NOVAR = [x for x in LEAVES if x != "→v"]
NEUTRAL = ["", "n_", "₀_", "?_", ":_", "←v_"]
FIXED = ["?ɾv›", "?ɾƒ+", "?ɾɖ+", "??~+", "?ɾ~∷", "??₌+-", "??₍+-", "⁽›†", "?ɾvN∑", "?ɾ⁽›M", "?ɾ⁽∷F", "??₌›‹", "?ɾƒ-", "??~-_", "?λ:[‹x];†", "?‡›N†", "?ɾ∑", "?ɾG", "?ɾṘ", "?ɾs", "?ß₀", "?ß⁽u†"]


class Gen:
    def __init__(self, seed):
        self.r = random.Random(seed)

    def leaves(self, pool):
        return "".join(self.r.choice(pool) for _ in range(self.r.randint(1, 3)))

    def prog(self, d, pool, nofn=False):
        return "".join(self.item(d, pool, nofn) for _ in range(self.r.randint(1, 3)))

    def item(self, d, pool, nofn=False):
        r = self.r
        if d == 0 or r.random() < 0.45:
            return r.choice(pool)
        inner = NOVAR if pool is LEAVES else pool
        p = lambda pl=pool, nf=nofn: self.prog(d - 1, pl, nf)
        kinds = ["if", "if2", "if3", "if3n", "if5n", "for", "forv", "while", "lam", "lam2", "list", "list2", "brk", "cont"]
        if pool is not PURE:
            kinds += ["map", "filt", "sort", "lamret", "fixed", "fixed"]
            if not nofn:  # a definition inside a function body is a Python-local name (undocumented scoping): outside the claim
                kinds += ["fdef", "fdef2", "fdefn", "fnret"]
        k = r.choice(kinds)
        if k == "if":
            return "?[" + p() + "]" if pool is not PURE else ":[" + p() + "]"
        c = "?" if pool is not PURE else ":"
        if k == "if2":
            return c + "[" + p() + "|" + p() + "]"
        if k == "if3":
            return c + "[" + p() + "|" + c + "|" + p() + "|" + p() + "]"
        if k == "if3n":
            return c + "[" + p() + "|" + c + "|" + p() + "]"
        if k == "if5n":
            return c + "[" + p() + "|" + c + "|" + p() + "|" + c + "|" + p() + "]"
        if k == "for":
            return c + "ȧ(" + p() + ")" if pool is PURE else "?(" + p() + ")"
        if k == "forv":
            return ("?" if pool is not PURE else "₀∷›") + "(i|" + p() + "←i)" if pool is LEAVES else (c + "[" + p() + "]")
        if k == "while":
            return ("?" if pool is not PURE else "u N") + "{:|‹" + r.choice(NEUTRAL if pool is not PURE else ["", "n_", "₀_", ":_"]) + "}"
        if k == "lam":
            return "λ" + p(inner) + ";†"
        if k == "lam2":
            return "λ2|" + p(inner) + ";†"
        if k == "map":
            return "?ɾƛ" + self.prog(d - 1, PURE) + ";"
        if k == "filt":
            return "?ɾ'" + self.prog(d - 1, PURE) + ";"
        if k == "sort":
            return "?ɾµ" + self.prog(d - 1, PURE) + ";"
        if k == "list":
            return "⟨" + p(inner) + "⟩"
        if k == "list2":
            return "⟨" + p(inner) + "|" + p(inner) + "⟩"
        if k == "fdef":
            return "@g:1|" + p(inner, True) + ";?@g;"
        if k == "fdef2":
            return "@j:2|" + p(inner, True) + ";??@j;"
        if k == "fdefn":
            return "@m:a|" + p(inner, True) + "←a;?@m;"
        if k == "brk":
            return c + ("ȧ" if pool is PURE else "") + "(" + p() + c + "[X]" + p() + ")"
        if k == "cont":
            return c + ("ȧ" if pool is PURE else "") + "(" + p() + c + "[x]" + p() + ")"
        if k == "lamret":
            return "λ" + p(inner) + "?[X]" + p(inner) + ";†"
        if k == "fnret":
            return "@q:1|" + p(inner, True) + "?[X]" + p(inner, True) + ";?@q;"
        return r.choice(FIXED)

    def program(self, depth):
        return "₀→v" + self.prog(depth, LEAVES)


def programs(seed, count, depth=3):
    g = Gen(seed)
    out = []
    seen = set()
    while len(out) < count:
        p = g.program(depth)
        if p not in seen and len(p) <= 60:
            seen.add(p)
            out.append(p)
    return out
