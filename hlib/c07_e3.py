"""C07 tier B driver (engine E3): z3 queries over the AST-level encoding of the arithmetic overload tables, candidate replay on the
real functions, translator validation and a cvc5 cross-check. Run as: python -m hlib.c07_e3 <repo> ; prints one JSON object."""
import fractions
import itertools
import json
import os
import subprocess
import sys
import tempfile
import time
import warnings

import z3

from hlib.vysym import ARITH, FLOAT, PYINT, RAT, Module, Unsupported, V, apply_fn, flatten

warnings.filterwarnings("ignore")
REPLAY = len(sys.argv) > 1 and sys.argv[1] == "--replay"
REPO = (sys.argv[2] if REPLAY else sys.argv[1]) if len(sys.argv) > 1 else "/repo"
sys.path.insert(0, REPO)
F = fractions.Fraction
import random as _random
_r = _random.Random(7)
HARD = [(F(-79021, 8188), F(-210157, 8795)), (F(7, 2), F(772, 31)), (F(777197), F(1034)), (F(2**53 + 1), F(3)), (F(-7, 2), F(1)), (F(5), F(-3, 2)), (F(3, 2), F(0)), (F(0), F(0)), (F(-1), F(3)), (F(1, 2), F(-1))]
HARD += [(F(1), F(1, 9973 * 9941 * 9929)), (F(7, 3), F(-1, 10**12 + 39)), (F(100003, 9973), F(1)), (F(-100003, 9973), F(7, 2)), (F(10**15 + 1, 7), F(3, 10**11 + 3)), (F(5), F(1, 10**11)), (F(-4), F(1, 3)), (F(22, 7), F(-22, 7))]
HARD += [(F(_r.randint(-10**6, 10**6), _r.randint(1, 10**4)), F(_r.randint(-10**6, 10**6), _r.randint(1, 10**4))) for _i in range(150)]


def spec(fname, x, y):
    return {
        "add": lambda: x + y,
        "subtract": lambda: x - y,
        "multiply": lambda: x * y,
        "divide": lambda: z3.If(y == 0, 0, x / y),
        "integer_divide": lambda: z3.If(y == 0, 0, z3.ToReal(z3.ToInt(x / y))),
        "modulo": lambda: x - y * z3.ToReal(z3.ToInt(x / y)),
    }[fname]()


def spec_concrete(fname, x, y):
    if fname == "add":
        return x + y
    if fname == "subtract":
        return x - y
    if fname == "multiply":
        return x * y
    if fname == "divide":
        return F(0) if y == 0 else x / y
    if fname == "integer_divide":
        return F(0) if y == 0 else F((x / y).__floor__())
    if fname == "modulo":
        return x - y * (x / y).__floor__()


def mk(tag, name):
    return V(tag, z3.Int(name) if tag == PYINT else z3.Real(name))


def frac_of(model, v):
    r = model.eval(v.val, model_completion=True)
    if z3.is_int_value(r):
        return F(r.as_long())
    if z3.is_rational_value(r):
        return F(r.numerator_as_long(), r.denominator_as_long())
    return None


def to_operand(tag, fr):
    import sympy

    if tag == PYINT:
        return int(fr)
    return sympy.Rational(fr.numerator, fr.denominator)


def real_result(E, ctx, fname, a, b):
    import sympy

    r = getattr(E, fname)(a, b, ctx)
    ok_type = (type(r) is int) or isinstance(r, sympy.Rational)
    try:
        val = F(int(sympy.numer(r)), int(sympy.denom(r))) if ok_type else None
    except Exception:
        val, ok_type = None, False
    return r, ok_type, val


def main():
    import vyxal.helpers  # noqa
    import vyxal.elements as E
    from vyxal.context import Context

    ctx = Context()
    mod = Module(os.path.join(REPO, "vyxal", "elements.py"), [os.path.join(REPO, "vyxal", "helpers.py")])
    out = {"queries": [], "violations": [], "inconclusive": [], "solver_s": 0.0, "validated": 0, "errors": [], "cvc5": {"agree": 0, "disagree": 0, "timeout_or_unknown": 0}}
    smt_dumps = []

    def check(name, solver, a, b, tags, replay_fn):
        t = time.time()
        solver.set("timeout", 20000)
        r = str(solver.check())
        dt = time.time() - t
        out["solver_s"] += dt
        q = {"query": name, "tags": tags, "result": r, "s": round(dt, 3)}
        smt_dumps.append((name + ":" + ",".join(tags), solver.to_smt2(), r))
        if r == "unsat":
            q["verdict"] = "holds for all operands of these types"
        elif r == "sat":
            # candidate: replay on the real code; a nondeterministic stub may hand back a value the library never produces
            found = None
            tried = 0
            for _ in range(6):
                m = solver.model()
                fa, fb = frac_of(m, a), frac_of(m, b)
                if fa is None or fb is None:
                    break
                cands = [(fa + da, fb + db) for da, db in ((0, 0), (1, 0), (0, 1), (-1, 0), (0, -1), (1, 1), (7, 3), (-5, 2))]
                if _ == 0:
                    cands += HARD
                for ca, cb in cands:
                    if tags[0] == PYINT and ca.denominator != 1 or tags[1] == PYINT and cb.denominator != 1:
                        continue
                    tried += 1
                    out["validated"] += 1
                    why = replay_fn(ca, cb)
                    if why:
                        found = (ca, cb, why)
                        break
                if found:
                    break
                solver.add(z3.Or(a.val != m.eval(a.val, model_completion=True), b.val != m.eval(b.val, model_completion=True)))
                if str(solver.check()) != "sat":
                    break
            if found:
                q["verdict"] = "violated: %s" % (found[2],)
                out["violations"].append({"query": name, "tags": tags, "a": str(found[0]), "b": str(found[1]), "why": found[2]})
            else:
                q["verdict"] = "inconclusive: %d candidates from the solver did not reproduce on the real code (stub looser than the library)" % tried
                out["inconclusive"].append(name + " " + str(tags))
        else:
            q["verdict"] = "inconclusive: solver answered " + r
            out["inconclusive"].append(name + " " + str(tags))
        out["queries"].append(q)

    # ---- single operators ----
    for fname in ARITH:
        for ta, tb in itertools.product((PYINT, RAT), repeat=2):
            a, b = mk(ta, "a"), mk(tb, "b")
            side = []
            try:
                res = apply_fn(mod, fname, a, b, side)
            except Unsupported as u:
                out["inconclusive"].append("%s %s %s: unsupported %s" % (fname, ta, tb, u))
                out["queries"].append({"query": fname, "tags": [ta, tb], "result": "n/a", "verdict": "inconclusive: unsupported " + str(u)})
                continue
            s = z3.Solver()
            for c in side:
                s.add(c)
            if fname == "modulo":
                s.add(b.real() != 0)
            bad = []
            unsupported = None
            for g, v in flatten(res):
                if not isinstance(v, V):
                    unsupported = str(v)[:80]
                    break
                ok = z3.And(z3.BoolVal(v.tag in (PYINT, RAT)), v.real() == spec(fname, a.real(), b.real()))
                bad.append(z3.And(g, z3.Not(ok)))
            if unsupported:
                out["inconclusive"].append("%s %s %s: result %s" % (fname, ta, tb, unsupported))
                continue
            s.add(z3.Or(bad))

            def replay(ca, cb, fname=fname, ta=ta, tb=tb):
                if fname == "modulo" and cb == 0:
                    return None
                try:
                    r, ok_type, val = real_result(E, ctx, fname, to_operand(ta, ca), to_operand(tb, cb))
                except Exception as e:  # noqa
                    return "%s(%s, %s) raised %s" % (fname, ca, cb, type(e).__name__)
                want = spec_concrete(fname, ca, cb)
                if not ok_type or val != want:
                    return "%s(%s, %s) = %r, exact value %s" % (fname, ca, cb, r, want)
                return None

            check(fname, s, a, b, [ta, tb], replay)
    # ---- chained identities ----
    CH = [("a/b*b == a", ("divide", "multiply"), lambda a, b: a, True), ("(a+b)-b == a", ("add", "subtract"), lambda a, b: a, False), ("a*b/b == a", ("multiply", "divide"), lambda a, b: a, True),
          ("(a-b)+b == a", ("subtract", "add"), lambda a, b: a, False)]
    for cname, (f1, f2), want, nz in CH:
        for ta, tb in itertools.product((PYINT, RAT), repeat=2):
            a, b = mk(ta, "a"), mk(tb, "b")
            side = []
            try:
                bad = []
                for g1, v1 in flatten(apply_fn(mod, f1, a, b, side)):
                    if not isinstance(v1, V):
                        raise Unsupported("fallback in chain")
                    for g2, v2 in flatten(apply_fn(mod, f2, v1, b, side)):
                        if not isinstance(v2, V):
                            raise Unsupported("fallback in chain")
                        ok = z3.And(z3.BoolVal(v2.tag in (PYINT, RAT)), v2.real() == want(a, b).real())
                        bad.append(z3.And(g1, g2, z3.Not(ok)))
            except Unsupported as u:
                out["inconclusive"].append("%s %s %s: unsupported %s" % (cname, ta, tb, u))
                continue
            s = z3.Solver()
            for c in side:
                s.add(c)
            if nz:
                s.add(b.real() != 0)
            s.add(z3.Or(bad))

            def replay(ca, cb, f1=f1, f2=f2, ta=ta, tb=tb, nz=nz, cname=cname):
                if nz and cb == 0:
                    return None
                try:
                    r1 = getattr(E, f1)(to_operand(ta, ca), to_operand(tb, cb), ctx)
                    r, ok_type, val = real_result(E, ctx, f2, r1, to_operand(tb, cb))
                except Exception as e:  # noqa
                    return "%s with a=%s b=%s raised %s" % (cname, ca, cb, type(e).__name__)
                if not ok_type or val != ca:
                    return "%s fails for a=%s b=%s: got %r" % (cname, ca, cb, r)
                return None

            check(cname, s, a, b, [ta, tb], replay)
    # ---- translator validation: the encoding evaluated on concrete operands vs the real functions ----
    grid = sorted({F(p, q) for p in range(-4, 5) for q in (1, 2, 3)})
    mism = 0
    for fname in ARITH:
        for ta, tb in itertools.product((PYINT, RAT), repeat=2):
            for ca, cb in itertools.product(grid, repeat=2):
                if (ta == PYINT and ca.denominator != 1) or (tb == PYINT and cb.denominator != 1) or (fname == "modulo" and cb == 0):
                    continue
                a = V(ta, z3.IntVal(int(ca)) if ta == PYINT else z3.RealVal(str(ca)))
                b = V(tb, z3.IntVal(int(cb)) if tb == PYINT else z3.RealVal(str(cb)))
                side = []
                try:
                    res = apply_fn(mod, fname, a, b, side)
                except Unsupported:
                    continue
                if side:
                    continue  # a nondeterministic stub is involved: nothing to compare
                enc = None
                for g, v in flatten(res):
                    if z3.is_true(z3.simplify(g)) and isinstance(v, V):
                        r = z3.simplify(v.real())
                        if z3.is_rational_value(r) or z3.is_int_value(r):
                            enc = (v.tag, F(r.numerator_as_long(), r.denominator_as_long()))
                if enc is None:
                    continue
                try:
                    r, ok_type, val = real_result(E, ctx, fname, to_operand(ta, ca), to_operand(tb, cb))
                except Exception:
                    continue
                out["validated"] += 1
                if enc[0] == FLOAT:
                    continue  # the encoding says "inexact float": the real value is only near
                if val != enc[1]:
                    mism += 1
                    if mism <= 3:
                        out["errors"].append("translator validation: %s(%s,%s) real %r, encoding %s" % (fname, ca, cb, r, enc[1]))
    # ---- supplementary, concrete: the real functions against exact Fraction arithmetic on the property's small exhaustive range ----
    small = sorted({F(p, q) for p in range(-8, 9) for q in (1, 2, 3, 4)})
    nspec = 0
    for fname in ARITH:
        for ca, cb in itertools.product(small, repeat=2):
            if fname == "modulo" and cb == 0:
                continue
            for ta, tb in itertools.product((PYINT, RAT), repeat=2):
                if (ta == PYINT and ca.denominator != 1) or (tb == PYINT and cb.denominator != 1):
                    continue
                nspec += 1
                try:
                    r, ok_type, val = real_result(E, ctx, fname, to_operand(ta, ca), to_operand(tb, cb))
                    bad = (not ok_type) or val != spec_concrete(fname, ca, cb)
                    why = "%s(%s %s, %s %s) = %r, exact value %s" % (fname, ta, ca, tb, cb, r, spec_concrete(fname, ca, cb))
                except Exception as e:  # noqa
                    bad, why = True, "%s(%s %s, %s %s) raised %s" % (fname, ta, ca, tb, cb, type(e).__name__)
                if bad and len([v for v in out["violations"] if v["query"] == "grid:" + fname]) < 1:
                    out["violations"].append({"query": "grid:" + fname, "tags": [ta, tb], "a": str(ca), "b": str(cb), "why": why})
    # ... and on the hard pairs (large terms, tiny divisors, 2^53 neighbours), every operator, rational operands
    for fname in ARITH:
        for ca, cb in HARD:
            if fname == "modulo" and cb == 0:
                continue
            nspec += 1
            try:
                r, ok_type, val = real_result(E, ctx, fname, to_operand(RAT, ca), to_operand(RAT, cb))
                bad = (not ok_type) or val != spec_concrete(fname, ca, cb)
                why = "%s(%s, %s) = %r, exact value %s" % (fname, ca, cb, r, spec_concrete(fname, ca, cb))
            except Exception as e:  # noqa
                bad, why = True, "%s(%s, %s) raised %s" % (fname, ca, cb, type(e).__name__)
            if bad and len([v for v in out["violations"] if v["query"] == "grid:" + fname]) < 1:
                out["violations"].append({"query": "grid:" + fname, "tags": [RAT, RAT], "a": str(ca), "b": str(cb), "why": why})
    out["validated"] += nspec
    out["grid_pairs"] = nspec
    # ---- cvc5 cross-check of every query ----
    cvc5 = "/usr/bin/cvc5"
    if os.path.exists(cvc5):
        for name, smt, zr in smt_dumps:
            with tempfile.NamedTemporaryFile("w", suffix=".smt2", delete=False) as f:
                f.write("(set-logic ALL)\n" + smt)
                path = f.name
            try:
                p = subprocess.run([cvc5, "--tlimit=15000", path], stdout=subprocess.PIPE, stderr=subprocess.PIPE, timeout=30)
                cr = p.stdout.decode().strip().splitlines()[0] if p.stdout.strip() else "unknown"
            except Exception:
                cr = "unknown"
            os.unlink(path)
            if cr in ("sat", "unsat") and zr in ("sat", "unsat"):
                if cr == zr:
                    out["cvc5"]["agree"] += 1
                else:
                    out["cvc5"]["disagree"] += 1
                    out["errors"].append("z3 and cvc5 disagree on %s: z3 %s, cvc5 %s" % (name, zr, cr))
            else:
                out["cvc5"]["timeout_or_unknown"] += 1
    out["stubs_used"] = sorted(mod.stub_log)
    out["solver_s"] = round(out["solver_s"], 3)
    print(json.dumps(out, ensure_ascii=False))


CHAINS = {"a/b*b == a": ("divide", "multiply", True), "(a+b)-b == a": ("add", "subtract", False), "a*b/b == a": ("multiply", "divide", True), "(a-b)+b == a": ("subtract", "add", False)}


def replay_main():
    """python -m hlib.c07_e3 --replay <repo> <query> <tagA> <tagB> <a> <b> : exit 1 if the real functions violate the exact spec"""
    import vyxal.helpers  # noqa
    import vyxal.elements as E
    from vyxal.context import Context

    query, ta, tb, a, b = sys.argv[3:8]
    ctx = Context()
    ca, cb = F(a), F(b)
    query = query[5:] if query.startswith("grid:") else query
    if query in CHAINS:
        f1, f2, nz = CHAINS[query]
        r1 = getattr(E, f1)(to_operand(ta, ca), to_operand(tb, cb), ctx)
        r, ok_type, val = real_result(E, ctx, f2, r1, to_operand(tb, cb))
        want = ca
    else:
        try:
            r, ok_type, val = real_result(E, ctx, query, to_operand(ta, ca), to_operand(tb, cb))
        except Exception as e:  # noqa
            print("replay: REPRODUCED: %s(%s, %s) raised %s" % (query, ca, cb, type(e).__name__))
            sys.exit(1)
        want = spec_concrete(query, ca, cb)
    print("%s with a=%s (%s) b=%s (%s): real result %r, exact value %s" % (query, ca, ta, cb, tb, r, want))
    if not ok_type or val != want:
        print("replay: REPRODUCED")
        sys.exit(1)
    print("replay: did not reproduce")
    sys.exit(0)


if __name__ == "__main__":
    if REPLAY:
        replay_main()
    else:
        main()
