"""vysym (engine E3): typed symbolic evaluation of the arithmetic element functions, straight from the AST of
/repo/vyxal/elements.py, into z3 terms. Used by C07 for operands that are sympy rationals (symbolic data cannot enter sympy).

Values are (tag, z3 term): pyint (Int), rat (Real; sympy Integer/Rational), float (Real + inexact).
Library stubs are no stronger than the library's contract (DESIGN.md 2.4). Anything outside the supported subset raises
Unsupported -> the obligation is inconclusive with the offending node named, never a violation.
"""
import ast
import itertools

import z3


class Unsupported(Exception):
    pass


PYINT, RAT, FLOAT, STR, LIST, FUN = "pyint", "rat", "float", "str", "list", "fun"
TOL = z3.RealVal("1e-15")


class V:
    def __init__(self, tag, val=None, ival=None):
        self.tag, self.val = tag, val
        # ival: an Int-sorted term equal to the value when it is known to be an integer (python int, sympy Integer from floor /
        # sympify(int) / integer arithmetic); lets isinstance(x, Integer) and int(x) be decided without IsInt over nonlinear terms
        self.ival = val if (tag == PYINT and ival is None) else ival

    def real(self):
        return z3.ToReal(self.val) if self.tag == PYINT else self.val


def vy_type_of(v):
    if v.tag in (PYINT, RAT, FLOAT):
        if v.tag == FLOAT:
            raise Unsupported("vy_type asserts its argument is not a float")
        return "NUMBER_TYPE"
    return {STR: "str", LIST: "list", FUN: "types.FunctionType"}[v.tag]


def floor_real(x):
    return z3.ToInt(x)


def absr(x):
    return z3.If(x >= 0, x, -x)


class Module:
    def __init__(self, path, extra_paths=()):
        self.funcs = {}
        self.consts = {}
        for pth in list(extra_paths) + [path]:
            src = open(pth, encoding="utf-8").read()
            tree = ast.parse(src)
            self.funcs.update({n.name: n for n in tree.body if isinstance(n, ast.FunctionDef)})
            for n in tree.body:
                if isinstance(n, ast.Assign) and len(n.targets) == 1 and isinstance(n.targets[0], ast.Name) and isinstance(n.value, ast.Constant) and isinstance(n.value.value, (int, float)) and not isinstance(n.value.value, bool):
                    self.consts[n.targets[0].id] = n.value.value
        self.fresh = itertools.count()
        self.stub_log = set()


class Ev:
    def __init__(self, mod, env):
        self.mod, self.env = mod, env
        self.side = []  # constraints contributed by nondeterministic stubs

    def ev(self, n):
        m = getattr(self, "ev_" + type(n).__name__, None)
        if m is None:
            raise Unsupported("node " + ast.dump(n)[:80])
        return m(n)

    def ev_Name(self, n):
        if n.id in self.env:
            return self.env[n.id]
        if n.id in ("NUMBER_TYPE", "str", "list"):
            return ("T", n.id)
        if n.id in self.mod.consts:
            c = self.mod.consts[n.id]
            if isinstance(c, int):
                return V(PYINT, z3.IntVal(c))
            import fractions
            fr = fractions.Fraction(repr(c))
            return V(FLOAT, z3.RealVal("%d/%d" % (fr.numerator, fr.denominator)))
        raise Unsupported("name " + n.id)

    def ev_Attribute(self, n):
        s = ast.unparse(n)
        if s == "types.FunctionType":
            return ("T", s)
        raise Unsupported("attribute " + s)

    def ev_Constant(self, n):
        if isinstance(n.value, bool) or not isinstance(n.value, int):
            raise Unsupported("constant %r" % (n.value,))
        return V(PYINT, z3.IntVal(n.value))

    def ev_Tuple(self, n):
        return ("TT", tuple(self.ev(e) for e in n.elts))

    def ev_Subscript(self, n):
        base = self.ev(n.value)
        idx = n.slice.value if isinstance(n.slice, ast.Constant) else None
        if isinstance(n.slice, ast.UnaryOp) and isinstance(n.slice.op, ast.USub) and isinstance(n.slice.operand, ast.Constant):
            idx = -n.slice.operand.value
        if base[0] == "TT" and idx is not None:
            return base[1][idx]
        raise Unsupported("subscript")

    def num(self, x):
        if isinstance(x, tuple) and x[0] == "ITE":
            raise Unsupported("conditional value used as an operand")
        if not isinstance(x, V) or x.tag not in (PYINT, RAT, FLOAT):
            raise Unsupported("non-number operand")
        return x

    def ev_BinOp(self, n):
        a, b = self.num(self.ev(n.left)), self.num(self.ev(n.right))
        return binop(type(n.op).__name__, a, b)

    def ev_UnaryOp(self, n):
        a = self.num(self.ev(n.operand))
        if isinstance(n.op, ast.USub):
            return V(a.tag, -a.val)
        raise Unsupported("unary op")

    def ev_Compare(self, n):
        if len(n.ops) != 1:
            raise Unsupported("chained comparison")
        a, b = self.ev(n.left), self.ev(n.comparators[0])
        op = type(n.ops[0]).__name__
        if isinstance(a, V) and isinstance(b, V):
            x, y = a.real(), b.real()
            tbl = {"Eq": x == y, "NotEq": x != y, "Lt": x < y, "Gt": x > y, "LtE": x <= y, "GtE": x >= y}
            if op not in tbl:
                raise Unsupported("comparison " + op)
            return ("B", tbl[op])
        if op in ("Eq", "Is"):
            return ("B", z3.BoolVal(a == b))
        if op in ("NotEq", "IsNot"):
            return ("B", z3.BoolVal(a != b))
        raise Unsupported("comparison of non-numbers")

    def truth(self, c):
        if isinstance(c, V):
            return c.real() != 0
        if isinstance(c, tuple) and c[0] == "B":
            return c[1]
        if isinstance(c, tuple) and c[0] == "ITE":
            return z3.If(c[1], self.truth(c[2]), self.truth(c[3]))
        raise Unsupported("truth value of " + str(c)[:40])

    def ev_IfExp(self, n):
        c = self.truth(self.ev(n.test))
        return ("ITE", c, self.ev(n.body), self.ev(n.orelse))

    def ev_BoolOp(self, n):
        vals = [self.truth(self.ev(v)) for v in n.values]
        return ("B", z3.Or(*vals) if isinstance(n.op, ast.Or) else z3.And(*vals))

    def ev_Lambda(self, n):
        return ("LAM", n.body)

    def ev_Dict(self, n):
        return ("DICT", [(self.ev(k), v) for k, v in zip(n.keys, n.values)])

    def ev_Call(self, n):
        f = ast.unparse(n.func)
        kw = {k.arg: k.value for k in n.keywords}
        if f == "vy_type":
            args = [self.ev(a) for a in n.args]
            ts = tuple(("T", vy_type_of(a)) for a in args)
            return ts[0] if len(ts) == 1 else ("TT", ts)
        if f in ("sympy.nsimplify", "sympy.sympify", "sympy.Rational", "sympy.floor", "int", "abs") or (f == "vyxalify" and "vyxalify" not in self.mod.funcs):
            return self.stub(f, [self.num(self.ev(a)) for a in n.args], kw)
        if f == "bool":
            return ("B", self.truth(self.ev(n.args[0])))
        if f == "int" and n.args:
            a0 = self.ev(n.args[0])
            if isinstance(a0, tuple) and a0[0] == "B":
                return V(PYINT, z3.If(a0[1], z3.IntVal(1), z3.IntVal(0)))
        if f == "simplify" :
            a = self.num(self.ev(n.args[0]))
            self.mod.stub_log.add("simplify")
            if a.tag == PYINT or a.tag == FLOAT:
                return a
            if a.ival is not None:
                return V(PYINT, a.ival)
            return V(FLOAT, self.nearby(a))  # eval(sympy.pycode(rational)) is a python float near the value
        if f == "isinstance":
            return ("B", self.isinstance(self.num(self.ev(n.args[0])), n.args[1]))
        if f == "is_sympy":
            a = self.num(self.ev(n.args[0]))
            return ("B", z3.BoolVal(a.tag == RAT))
        if f in self.mod.funcs:
            fn = self.mod.funcs[f]
            params = [x.arg for x in fn.args.args]
            args = [self.ev(a) for a in n.args]
            env = {"ctx": ("CTX",)}
            for pn, av in zip(params, args):
                env[pn] = av
            for k in n.keywords:
                if k.arg != "ctx":
                    env[k.arg] = self.ev(k.value)
            sub = Ev(self.mod, env)
            sub.depth = getattr(self, "depth", 0) + 1
            if sub.depth > 6:
                raise Unsupported("call depth")
            r = run_body(self.mod, sub, fn.body)
            self.side.extend(sub.side)
            if r is None:
                raise Unsupported("no return reached in " + f)
            return r
        if isinstance(n.func, ast.Call) and isinstance(n.func.func, ast.Attribute) and n.func.func.attr == "get" and not n.args:
            d = self.ev(n.func.func.value)
            key = self.ev(n.func.args[0])
            default = n.func.args[1]
            if d[0] != "DICT":
                raise Unsupported("get() on a non-dict")
            for k, lam in d[1]:
                if k == key:
                    return self.ev(lam.body if isinstance(lam, ast.Lambda) else lam)
            return ("FALLBACK", ast.unparse(default))
        raise Unsupported("call " + f)

    def isinstance(self, a, tnode):
        names = [ast.unparse(e) for e in tnode.elts] if isinstance(tnode, ast.Tuple) else [ast.unparse(tnode)]
        conds = []
        for nm in names:
            if nm in ("sympy.core.numbers.Integer", "sympy.Integer"):
                conds.append((z3.BoolVal(True) if a.ival is not None else z3.IsInt(a.val)) if a.tag == RAT else z3.BoolVal(False))
            elif nm in ("sympy.Rational", "sympy.core.numbers.Rational", "sympy.Basic", "sympy.Expr", "sympy.Number"):
                conds.append(z3.BoolVal(a.tag == RAT))
            elif nm == "int":
                conds.append(z3.BoolVal(a.tag == PYINT))
            elif nm in ("float", "complex"):
                conds.append(z3.BoolVal(a.tag == FLOAT))
            elif nm in ("bool", "str", "list", "LazyList", "types.FunctionType", "tuple"):
                conds.append(z3.BoolVal(False))
            else:
                raise Unsupported("isinstance against " + nm)
        return z3.Or(*conds) if conds else z3.BoolVal(False)

    def nearby(self, a):
        r = z3.Real("ns%d" % next(self.mod.fresh))
        self.side.append(absr(r - a.real()) <= TOL * absr(a.real()) + TOL)
        return r

    def stub(self, f, args, kw):
        a = args[0]
        self.mod.stub_log.add(f + ("(rational=True)" if "rational" in kw else ""))
        if f == "sympy.nsimplify" and "rational" not in kw:
            # heuristic: exact only for integer-valued input; otherwise SOME number within the tolerance
            if a.tag == PYINT:
                return a
            r = self.nearby(a)
            if a.tag == RAT:
                self.side.append(z3.Implies(z3.IsInt(a.val), r == a.val))
            return V(RAT, r)
        if f in ("sympy.nsimplify", "vyxalify"):
            if a.tag in (PYINT, RAT):
                return a
            return V(RAT, self.nearby(a))
        if f == "sympy.sympify":
            return a if a.tag != PYINT else V(RAT, z3.ToReal(a.val), a.val)
        if f == "sympy.Rational":
            if len(args) == 2:
                return V(RAT, args[0].real() / args[1].real())
            return a if a.tag != PYINT else V(RAT, z3.ToReal(a.val), a.val)
        if f == "sympy.floor":
            if a.tag == FLOAT:
                raise Unsupported("floor of an inexact float")
            fl = floor_real(a.real())
            return V(RAT, z3.ToReal(fl), fl)
        if f == "int":
            if a.tag == PYINT:
                return a
            if a.ival is not None:
                return V(PYINT, a.ival)
            x = a.real()
            return V(PYINT, z3.If(z3.IsInt(x), z3.ToInt(x), z3.If(x >= 0, floor_real(x), -floor_real(-x))))
        if f == "abs":
            return V(a.tag, z3.If(a.val >= 0, a.val, -a.val))
        raise Unsupported("stub " + f)


def binop(op, a, b):
    if a.tag == PYINT and b.tag == PYINT:
        if op == "Add":
            return V(PYINT, a.val + b.val)
        if op == "Sub":
            return V(PYINT, a.val - b.val)
        if op == "Mult":
            return V(PYINT, a.val * b.val)
        if op == "Div":
            return V(FLOAT, z3.ToReal(a.val) / z3.ToReal(b.val))  # python: int / int is a float
        if op == "FloorDiv":
            return V(PYINT, floor_real(z3.ToReal(a.val) / z3.ToReal(b.val)))
        if op == "Mod":
            return V(PYINT, a.val - b.val * floor_real(z3.ToReal(a.val) / z3.ToReal(b.val)))
        raise Unsupported("int op " + op)
    tag = FLOAT if FLOAT in (a.tag, b.tag) else RAT
    x, y = a.real(), b.real()
    if tag == RAT and a.ival is not None and b.ival is not None and op in ("Add", "Sub", "Mult"):
        iv = {"Add": a.ival + b.ival, "Sub": a.ival - b.ival, "Mult": a.ival * b.ival}[op]
        return V(RAT, z3.ToReal(iv), iv)
    if op == "Add":
        return V(tag, x + y)
    if op == "Sub":
        return V(tag, x - y)
    if op == "Mult":
        return V(tag, x * y)
    if op == "Div":
        return V(tag, x / y)
    if op == "FloorDiv":
        return V(tag, z3.ToReal(floor_real(x / y)))
    if op == "Mod":
        return V(tag, x - y * z3.ToReal(floor_real(x / y)))
    raise Unsupported("op " + op)


ARITH = ("add", "subtract", "multiply", "divide", "modulo", "integer_divide")


def run_body(mod, ev, stmts):
    for i, st in enumerate(stmts):
        if isinstance(st, ast.Expr) and isinstance(st.value, ast.Constant):
            continue
        if isinstance(st, ast.Assign) and len(st.targets) == 1 and isinstance(st.targets[0], ast.Name):
            ev.env[st.targets[0].id] = ev.ev(st.value)
            continue
        if isinstance(st, ast.Return):
            return ev.ev(st.value)
        if isinstance(st, ast.If):
            c = ev.ev(st.test)
            if c[0] != "B":
                raise Unsupported("if statement on a non-boolean")
            simp = z3.simplify(c[1])
            rest = list(stmts[i + 1 :])
            if z3.is_true(simp):
                return run_body(mod, ev, list(st.body) + rest)
            if z3.is_false(simp):
                return run_body(mod, ev, list(st.orelse) + rest)
            e1, e2 = Ev(mod, dict(ev.env)), Ev(mod, dict(ev.env))
            e1.depth = e2.depth = getattr(ev, "depth", 0)
            r1 = run_body(mod, e1, list(st.body) + rest)
            r2 = run_body(mod, e2, list(st.orelse) + rest)
            ev.side.extend(e1.side + e2.side)
            if r1 is None or r2 is None:
                raise Unsupported("a branch of a symbolic if does not return")
            return ("ITE", c[1], r1, r2)
        raise Unsupported("statement " + type(st).__name__)
    return None


def flatten(res):
    """ITE tree -> list of (guard, value)"""
    if isinstance(res, tuple) and res[0] == "ITE":
        out = []
        for g, v in flatten(res[2]):
            out.append((z3.And(res[1], g), v))
        for g, v in flatten(res[3]):
            out.append((z3.And(z3.Not(res[1]), g), v))
        return out
    return [(z3.BoolVal(True), res)]


def apply_fn(mod, fname, a, b, side):
    """symbolic application of one translated element function to two typed numbers; returns a value or an ITE tree"""
    fn = mod.funcs[fname]
    params = [x.arg for x in fn.args.args]
    ev = Ev(mod, {params[0]: a, params[1]: b, "ctx": ("CTX",)})
    r = run_body(mod, ev, fn.body)
    side.extend(ev.side)
    if r is None:
        raise Unsupported("no return reached in " + fname)
    return r
