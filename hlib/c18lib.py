"""C18 helpers: segment matching of generated code against the benign-payload reference, AST confirmation."""
import ast
import re

from hlib.common import *  # noqa

IDCHARS = "ABCDEFGHIJKLMNOPQRSTUVWXYZabcdefghijklmnopqrstuvwxyz0123456789_"
_counter = [0]


def det_token_hex(n=16):
    _counter[0] += 1
    return "%032x" % _counter[0]


def transpile_det(program, dict_compress=True):
    """transpile with deterministic lambda / loop ids (secrets.token_hex stub)"""
    _counter[0] = 0
    real = T.secrets.token_hex
    T.secrets.token_hex = det_token_hex
    try:
        return T.transpile(program, dict_compress)
    finally:
        T.secrets.token_hex = real


def transpile_struct_det(struct, dict_compress=True):
    _counter[0] = 0
    real = T.secrets.token_hex
    T.secrets.token_hex = det_token_hex
    try:
        return T.transpile_ast([struct], dict_compress=dict_compress)
    finally:
        T.secrets.token_hex = real


def match_segments(out, segs, kind):
    """out == segs[0] + hole + segs[1] + hole + ... where every hole is a safe encoding:
    kind 'ident': [A-Za-z0-9_]*; kind 'strbody': a well-formed double-quoted literal body.
    returns True / False / 'uncompilable' (raw line break or NUL inside a literal: the module cannot be compiled)"""
    pos = 0
    n = len(out)
    for i, seg in enumerate(segs):
        if out[pos : pos + len(seg)] != seg:
            return False
        pos += len(seg)
        if i == len(segs) - 1:
            break
        if kind == "ident":
            while pos < n and out[pos] in IDCHARS:
                pos += 1
        else:
            while pos < n:
                c = out[pos]
                if c == '"':
                    break
                if c == "\\":
                    if pos + 1 >= n:
                        return False
                    d = out[pos + 1]
                    if d == "\r" or d == "\x00":
                        return "uncompilable"
                    pos += 2
                    continue
                if c == "\n" or c == "\r" or c == "\x00":
                    return "uncompilable"
                pos += 1
    return pos == n


class _Blank(ast.NodeTransformer):
    def visit_Constant(self, node):
        return ast.copy_location(ast.Constant(value=type(node.value).__name__), node)

    @staticmethod
    def _id(name):
        if re.fullmatch(r"VAR_[A-Za-z0-9_]*", name):
            return "VAR_"
        if re.fullmatch(r"_lambda_[0-9a-f]+", name):
            return "_lambda_"
        return name

    def visit_Name(self, node):
        node.id = self._id(node.id)
        return node

    def visit_Attribute(self, node):
        self.generic_visit(node)
        node.attr = self._id(node.attr)
        return node

    def visit_FunctionDef(self, node):
        self.generic_visit(node)
        node.name = self._id(node.name)
        return node


def ast_shape(code):
    tree = ast.parse(code)
    return ast.dump(_Blank().visit(tree))


def tok_shape(code):
    """Python token sequence with string/number constants and VAR_/_lambda_ identifier tails blanked; comments are kept:
    program text that leaks into a comment is program text outside a constant."""
    import io
    import tokenize

    out = []
    for t in tokenize.generate_tokens(io.StringIO(code).readline):
        if t.type == tokenize.STRING:
            out.append("S")
        elif t.type == tokenize.NUMBER:
            out.append("N")
        elif t.type == tokenize.NAME:
            out.append(_Blank._id(t.string))
        elif t.type == tokenize.COMMENT:
            out.append("#comment")
        elif t.type in (tokenize.NL, tokenize.NEWLINE, tokenize.INDENT, tokenize.DEDENT, tokenize.ENDMARKER):
            out.append(tokenize.tok_name[t.type])
        else:
            out.append(t.string)
    return out


def concrete(x):
    """realise a (possibly symbolic) string before handing it to the C-level parser: compile()/tokenize reject proxy strings,
    which would otherwise be mistaken for 'output cannot compile'"""
    try:
        from crosshair.core import deep_realize

        return deep_realize(x)
    except Exception:  # noqa
        return x


def ast_confirm(out, ref):
    """The property's own observation, concretely (this realises `out`): compile and compare the AST and the token sequence with
    the benign payload's, constants and VAR_/_lambda_ identifier tails blanked. True = no violation (also when `out` cannot compile)."""
    out = concrete(out)
    if not isinstance(out, str):
        raise TypeError("generated code is not a str")
    try:
        s1 = ast_shape(out)
        t1 = tok_shape(out)
    except (SyntaxError, ValueError, IndentationError):
        return note("output cannot compile: nothing is returned that could run")
    except Exception:  # tokenize.TokenError
        return note("output cannot be tokenised")
    return s1 == ast_shape(ref) and t1 == tok_shape(ref)


def code_ok(out, ref, sentinel, kind):
    segs = ref.split(sentinel)
    m = match_segments(out, segs, kind)
    if m is True:
        return True
    if m == "uncompilable":
        return note("uncompilable output (raw line break / NUL inside a literal)")
    if ast_confirm(out, ref):
        return note("lexical model too strict; AST shape equal")
    return explain("generated code differs from the benign-payload code outside constants / identifier tails")


class FakeRe:
    """stand-in for the `re` module inside vyxal.transpile: sub() is a spy returning a sentinel"""

    def __init__(self, calls):
        self.calls = calls

    def sub(self, pattern, repl, string, *a, **k):
        self.calls.append((pattern, repl, string))
        return "SAN"

    def __getattr__(self, name):
        import re as _re

        return getattr(_re, name)


def transpile_struct_spied(struct):
    """transpile one structure with re.sub spied; returns (code, calls)"""
    calls = []
    real = T.re
    T.re = FakeRe(calls)
    try:
        return transpile_struct_det(struct), calls
    finally:
        T.re = real


_VOCAB = None


def vocabulary():
    """NAME tokens of the fixed template vocabulary: every element / modifier template and the structure templates (benign programs)."""
    global _VOCAB
    if _VOCAB is None:
        import io
        import keyword
        import tokenize

        texts = [v[0] for v in E.elements.values() if isinstance(v[0], str)] + list(E.modifiers.values())
        for prog in ("[1|2|3|4]", "(i|1)", "(1)", "{1|2}", "{1}", "λ1;", "λ2|1;", "ƛ1;", "'1;", "µ1;", "⟨1|2⟩", "@f:1:a:*|1;@f;", "v+", "₌+-", "≬+-*", "⁽+", "‡+-", "&+", "~+", "ß+", "ƒ+", "ɖ+", "₍+-",
                     "(X)", "(x)", "λX;", "λx;", "@f|X;", "@f|x;", "→a ←a → ←", "→_a ←_a", "`a`", chr(92) + "a", "‛ab", "«a«", "»a»", "⁺a", "1.5", "1°2", "vx", "[X]", "X", "x"):
            try:
                texts.append(transpile_det(prog))
            except Exception:  # noqa
                pass
        names = set(keyword.kwlist)
        for t in texts:
            try:
                for tok in tokenize.generate_tokens(io.StringIO(t).readline):
                    if tok.type == tokenize.NAME:
                        names.add(tok.string)
            except Exception:  # noqa
                continue
        _VOCAB = names
    return _VOCAB


def names_from_vocabulary(code):
    """The property's observation on a whole generated module (realises `code`): every NAME token is template vocabulary or a
    VAR_/_lambda_ identifier over [A-Za-z0-9_], and there is no comment. True also when the code cannot be compiled."""
    import io
    import tokenize

    code = concrete(code)
    if not isinstance(code, str):
        raise TypeError("generated code is not a str")
    try:
        compile(code, "<generated>", "exec")
        toks = list(tokenize.generate_tokens(io.StringIO(code).readline))
    except (SyntaxError, ValueError, IndentationError):
        return note("output cannot compile")
    except Exception:  # noqa
        return note("output cannot be tokenised")
    vocab = vocabulary()
    for tok in toks:
        if tok.type == tokenize.COMMENT:
            return explain("program text in a comment", tok.string[:30])
        if tok.type == tokenize.NAME and tok.string not in vocab and not re.fullmatch(r"(VAR_[A-Za-z0-9_]*|_lambda_[0-9a-f]+|VAR_LOOP[0-9a-f]+)", tok.string):
            return explain("a name outside the template vocabulary", tok.string[:40])
    return True
