"""Shared harness parts (DESIGN.md 2.5). Imported by every generated harness module and by replays.

Everything here must be safe under CrossHair tracing: no repr()/hash() of symbolic values.
"""
import sys
import warnings

warnings.filterwarnings("ignore")
from typing import List, Tuple, Optional  # noqa

try:
    from crosshair.tracers import NoTracing  # noqa
except Exception:  # replay without crosshair
    import contextlib

    NoTracing = contextlib.nullcontext

import vyxal.helpers as H  # must be imported before vyxal.LazyList (circular import in the tree)
import vyxal.LazyList as LLmod
import vyxal.elements as E
import vyxal.lexer as LEX
import vyxal.parse as PARSE
import vyxal.structure as STRUCT
import vyxal.transpile as T
import vyxal.main as M
import vyxal.encoding as ENC
from vyxal.context import Context
from vyxal.LazyList import LazyList
from vyxal.lexer import Token, TokenType, tokenise
from vyxal.parse import parse
from vyxal.structure import Structure

_WITNESSES = []
_EXPLAIN = []


def explain(*a):
    """record why a harness returned False (shown by the replay)"""
    with NoTracing():
        _EXPLAIN.append(a)
    return False


def force(x, depth=6):
    """Eager plain-list image of a Vyxal value (lists and LazyLists become lists)."""
    if isinstance(x, (list, LazyList, tuple)):
        if depth <= 0:
            return "<deep>"
        return [force(y, depth - 1) for y in x]
    return x


def shape(x):
    """Structural abstraction of parse() output with token values kept (no repr: nothing is realised)."""
    if isinstance(x, Token):
        return ("T", x.name.value, x.value)
    if isinstance(x, Structure):
        return (type(x).__name__, getattr(x, "modifier", None), tuple(shape(b) for b in x.branches))
    if isinstance(x, (list, tuple)):
        return tuple(shape(b) for b in x)
    if isinstance(x, type):
        return x.__name__
    return x


def shape_nv(x, keep=None):
    """Like shape() but literal token values are dropped (kind only)."""
    if isinstance(x, Token):
        if x.name in (TokenType.GENERAL, TokenType.VARIABLE_GET, TokenType.VARIABLE_SET):
            return ("T", x.name.value, x.value)
        return ("T", x.name.value)
    if isinstance(x, Structure):
        return (type(x).__name__, getattr(x, "modifier", None), tuple(shape_nv(b) for b in x.branches))
    if isinstance(x, (list, tuple)):
        return tuple(shape_nv(b) for b in x)
    if isinstance(x, type):
        return x.__name__
    return x


def literal_tokens(x, out=None):
    """All literal tokens (kind, value) in tree order."""
    if out is None:
        out = []
    if isinstance(x, Token):
        if x.name not in (TokenType.GENERAL,):
            out.append((x.name.value, x.value))
    elif isinstance(x, Structure):
        for b in x.branches:
            literal_tokens(b, out)
    elif isinstance(x, (list, tuple)):
        for b in x:
            literal_tokens(b, out)
    return out


def pick(x, lo, hi):
    """Concrete value of the symbolic int x inside [lo, hi]: one path per value (x must be constrained to the window)."""
    for v in range(lo, hi + 1):
        if x == v:
            return v
    raise AssertionError("pick: value outside its window")
