"""Shared harness parts (DESIGN.md 2.5). Imported by every generated harness module and by replays.

Everything here must be safe under CrossHair tracing: no repr()/hash() of symbolic values.
"""
import sys
import warnings

warnings.filterwarnings("ignore")
from typing import List, Tuple, Optional  # noqa

try:
    from crosshair.tracers import NoTracing  # noqa
except Exception:  # replay without crosshair
    import contextlib

    NoTracing = contextlib.nullcontext

import vyxal.helpers as H  # must be imported before vyxal.LazyList (circular import in the tree)
import vyxal.LazyList as LLmod
import vyxal.elements as E
import vyxal.lexer as LEX
import vyxal.parse as PARSE
import vyxal.structure as STRUCT
import vyxal.transpile as T
import vyxal.main as M
import vyxal.encoding as ENC
from vyxal.context import Context
from vyxal.LazyList import LazyList
from vyxal.lexer import Token, TokenType, tokenise
from vyxal.parse import parse
from vyxal.structure import Structure

_WITNESSES = []
_EXPLAIN = []


def explain(*a):
    """record why a harness returned False (shown by the replay)"""
    with NoTracing():
        _EXPLAIN.append(a)
    return False


def note(*a):
    """record a remark for the replay log (returns True so it can be used in `return note(...)`)"""
    with NoTracing():
        _EXPLAIN.append(a)
    return True


def path_ok():
    """vacuity marker: this path reached the end of the program normally (see Plan.require_ok_marker)"""
    with NoTracing():
        if "ok" not in _WITNESSES:
            _WITNESSES.append("ok")
    return True


def force(x, depth=6):
    """Eager plain-list image of a Vyxal value (lists and LazyLists become lists)."""
    if isinstance(x, (list, LazyList, tuple)):
        if depth <= 0:
            return "<deep>"
        return [force(y, depth - 1) for y in x]
    return x


def shape(x):
    """Structural abstraction of parse() output with token values kept (no repr: nothing is realised)."""
    if isinstance(x, Token):
        return ("T", x.name.value, x.value)
    if isinstance(x, Structure):
        return (type(x).__name__, getattr(x, "modifier", None), tuple(shape(b) for b in x.branches))
    if isinstance(x, (list, tuple)):
        return tuple(shape(b) for b in x)
    if isinstance(x, type):
        return x.__name__
    return x


def shape_nv(x, keep=None):
    """Like shape() but literal token values are dropped (kind only)."""
    if isinstance(x, Token):
        if x.name in (TokenType.GENERAL, TokenType.VARIABLE_GET, TokenType.VARIABLE_SET):
            return ("T", x.name.value, x.value)
        return ("T", x.name.value)
    if isinstance(x, Structure):
        return (type(x).__name__, getattr(x, "modifier", None), tuple(shape_nv(b) for b in x.branches))
    if isinstance(x, (list, tuple)):
        return tuple(shape_nv(b) for b in x)
    if isinstance(x, type):
        return x.__name__
    return x


def literal_tokens(x, out=None):
    """All literal tokens (kind, value) in tree order."""
    if out is None:
        out = []
    if isinstance(x, Token):
        if x.name not in (TokenType.GENERAL,):
            out.append((x.name.value, x.value))
    elif isinstance(x, Structure):
        for b in x.branches:
            literal_tokens(b, out)
    elif isinstance(x, (list, tuple)):
        for b in x:
            literal_tokens(b, out)
    return out


def pick(x, lo, hi):
    """Concrete value of the symbolic int x inside [lo, hi]: one path per value (x must be constrained to the window)."""
    for v in range(lo, hi + 1):
        if x == v:
            return v
    raise AssertionError("pick: value outside its window")


# ---- execution of transpiled code in a namespace built like main.execute_vyxal's -------------------
with NoTracing():
    BASE_NS = dict(vars(M))


def fresh_ns(ctx, stack):
    with NoTracing():
        ns = dict(BASE_NS)
    ns["ctx"] = ctx
    ns["stack"] = stack
    return ns


def no_stdin(*a, **k):
    raise EOFError("no STDIN (Input.md: then all input is 0)")


H.__dict__["input"] = no_stdin  # stub: STDIN absent


class InputLog:
    """Wraps helpers.get_input: logs every value actually delivered as ('T'|'S', scope depth, value)."""

    def __init__(self):
        self.log = []
        self.real = H.get_input

    def __enter__(self):
        real, log = self.real, self.log

        def get_input(ctx):
            depth, top = len(ctx.inputs), ctx.use_top_input
            delegates = (not top) and depth == 1 and not ctx.inputs[0][0]  # the real function re-enters with use_top_input
            ret = real(ctx)
            if top or (depth == 1 and not delegates):
                log.append(("T", depth, ret))
            elif depth > 1:
                log.append(("S", depth, ret))
            return ret

        self.wrapper = get_input
        H.get_input = get_input
        return self

    def __exit__(self, *a):
        H.get_input = self.real
        return False


def witness(*vals):
    """Record the realised values of a finished path (one concrete representative per explored path)."""
    try:
        from crosshair.core import deep_realize

        vals = deep_realize(vals)
    except Exception:  # noqa (replay without tracing: values are concrete already)
        pass
    with NoTracing():
        if len(_WITNESSES) < 400:
            _WITNESSES.append(vals)


# ---- print capture: vy_print's print() goes to a recorder (module global shadows the builtin) --------
PRINTED = []


def _rec_print(*a, sep=" ", end="\n", **k):
    PRINTED.append((a, end))


E.__dict__["print"] = _rec_print
M.__dict__["print"] = _rec_print
LLmod.__dict__["print"] = _rec_print


def printed_text():
    out = ""
    for a, end in PRINTED:
        out += " ".join(str(x) for x in a) + end
    return out


def stmts_of(program, dict_compress=True):
    """Transpiled text of each top-level structure of a program, in order (transpile runs concretely)."""
    tree = parse(tokenise(program))
    return [T.transpile_ast([s], dict_compress=dict_compress) for s in tree]


def depth_tuple(ctx):
    return (len(ctx.context_values), len(ctx.inputs), len(ctx.stacks), len(ctx.function_stack))


# ---- sympy runs OUTSIDE the tracer --------------------------------------------------------------
# Measured: under CrossHair's tracer sympy.nsimplify raises "TypeError: __hash__ method should return an integer"
# (Float keys in a dict display). The real sympy functions therefore run under NoTracing() on realised arguments:
# nothing is stubbed, but a symbolic value that reaches sympy becomes concrete (one path per value).
import types as _types


class _SympyOutsideTracer:
    def __init__(self, real):
        object.__setattr__(self, "_real", real)

    def __getattr__(self, name):
        real = object.__getattribute__(self, "_real")
        attr = getattr(real, name)
        if isinstance(attr, _types.FunctionType):
            def outside(*a, **k):
                try:
                    from crosshair.core import deep_realize

                    a, k = deep_realize(a), deep_realize(k)
                except Exception:  # noqa
                    pass
                with NoTracing():
                    return attr(*a, **k)

            outside.__name__ = name
            return outside
        if isinstance(attr, _types.ModuleType):
            return _SympyOutsideTracer(attr)
        return attr


import sympy as _sympy

for _m in (E, H, T, M, LLmod):
    if "sympy" in _m.__dict__:
        _m.__dict__["sympy"] = _SympyOutsideTracer(_sympy)
BASE_NS["sympy"] = _SympyOutsideTracer(_sympy)


def pick_str(s, alphabet, maxlen):
    """Concrete copy of the symbolic string s (over `alphabet`, len <= maxlen): one path per value."""
    n = pick(len(s), 0, maxlen)
    out = ""
    for i in range(n):
        for ch in alphabet:
            if s[i] == ch:
                out += ch
                break
        else:
            raise AssertionError("pick_str: character outside the alphabet")
    return out


def outside_tracer(fn, *args, **kw):
    """Call fn on already-concrete arguments outside the tracer (used where the callee runs sympy objects' own methods,
    which are nondeterministic under CrossHair's tracer). The obligation is then realisation-exhausted over its finite range."""
    with NoTracing():
        return fn(*args, **kw)


def force_some(x, limit=6, depth=3):
    """Force a value enough to run its generators: at most `limit` items per level (results may be infinite)."""
    if isinstance(x, (list, LazyList)) and depth > 0:
        i = 0
        for y in x:
            force_some(y, limit, depth - 1)
            i += 1
            if i >= limit:
                break
    return x


def pick_list(xs, lo, hi, maxlen):
    """Concrete copy of a symbolic int list (len <= maxlen, items in lo..hi): one path per value."""
    n = pick(len(xs), 0, maxlen)
    return [pick(xs[i], lo, hi) for i in range(n)]
