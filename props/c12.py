"""C12 - interpreter context is balanced after every construct (DESIGN.md C12)."""
from vfw.core import Ob, Plan, fn_src, known_exclusions

PRE = '''from hlib.common import *

def balanced_run(stmts, inputs):
    """exec each top-level statement in turn; the depth tuple and the top-level context must be the initial
    ones after each. Returns True/False; a program that raises is outside the property (finishes normally)."""
    ctx = Context()
    ctx.inputs[0][0] = list(inputs)
    stack = []
    ctx.stacks.append(stack)
    ns = fresh_ns(ctx, stack)
    del PRINTED[:]
    init = depth_tuple(ctx)
    for i, code in enumerate(stmts):
        try:
            exec(code, ns)
        except Exception as e:
            return note('program raised', i, type(e).__name__)
        if depth_tuple(ctx) != init:
            return explain('depth tuple after statement', i, depth_tuple(ctx), init)
        if len(ctx.context_values) != 1 or ctx.context_values[0] != 0:
            return explain('top-level context after statement', i)
        if ctx.stacks[0] is not stack:
            return explain('registered stack replaced')
    # the context element at top level
    exec(N_TEMPLATE, ns)
    if stack[-1] != 0:
        return explain('n at top level', stack[-1])
    return path_ok()

N_TEMPLATE = E.elements["n"][0]
'''

# (name, program, number of inputs, extra preconditions)
SMALL = "all(-1 <= x <= 3 for x in inputs)"
PROGRAMS = [
    ("for_break_in_if", "?(?[X])", 3),
    ("for_continue", "?(?[x]₀_)", 3),
    ("for_break_plain", "?(nX)", 1),
    ("for_nested_break_inner", "?(?(?[X]))", 4),
    ("for_nested_break_outer_after", "?(?(?[X])?[X])", 4),
    ("while_break", "?{:|‹?[X]}_", 3, "inputs[0] >= 0"),
    ("while_continue", "?{:|‹?[x]₀_}_", 3, "inputs[0] >= 0"),
    ("while_infinite_break", "{?[X]₀[X]}", 2),
    ("while_infinite_continue_then_break", "?{›:?<[x]X}_", 3),
    ("while_infinite_continue_twice", "?{›:?<[x]:?<[x]X}_", 4),
    ("for_continue_then_break", "?(n?<[x]n?>[X])", 4),
    ("while_cond_continue_then_break", "?{:|‹:?<[x]:?>[X]}_", 4, "inputs[0] >= 0"),
    ("lam_return_in_else", "?λ?[₀|X]₀;†_", 3),
    ("lam_return_in_nested_if", "?λ?[?[X]]₀;†_", 4),
    ("lam_return_in_if_in_loop_in_lam", "?λ(?[λ?[X]₁;†_]);†_", 4),
    ("fn_return_in_else", "@f:1|?[₀|X]₀;?@f;_", 3),
    ("print_lazy_empty_and_twice", "?ɾ:,,", 1),
    ("print_lazy_forced_before", "?ɾ:L_,", 1),
    ("lam_return_in_if", "?λ?[X]₀;†_", 3),
    ("lam_in_loop_return", "?(λX;†_)", 2),
    ("loop_in_lam_break", "?λ(?[X]);†_", 4),
    ("for_lam_for_break", "?(λ?(?[X]);†_)", 4),
    ("map_break_forced", "?ƛ?[X|₀];∑_", 4),
    ("filter_return", "?'?[X|₀];L_", 4),
    ("sort_lambda", "?µN;L_", 1),
    ("fn_return", "@f:1|?[X]₀;?@f;_", 3),
    ("fn_return_nested_loop", "@f:1|(?[X]);?@f;", 4),
    ("lam_recurse", "?λ:[‹x];†_", 1, "inputs[0] >= 0"),
    ("fn_recurse", "@f:1|:[‹x];?@f;", 1, "inputs[0] >= 0"),
    ("print_lazy", "?ɾ,", 1),
    ("print_lazy_in_loop", "?(nɾ,)", 1),
    ("print_map", "?ƛ›;,", 1),
    ("mod_vectorise", "?ɾv›_", 1),
    ("mod_fold", "?ɾƒ+_", 1),
    ("mod_both", "??₌+-__", 2),
    ("mod_lambda1_call", "?⁽›†_", 1),
    ("mod_x_in_operand", "?ɾvX_", 1),
    ("list_literal", "?⟨n|?(X)|₀⟩_", 2),
    ("if_chain", "?[?(X)|?|?(x)|₀]", 4),
    ("cond_n_after_loops", "?(n?[X])n?{:|‹X}n", 4),
]


def build(tier, seed, known):
    plan = Plan(prop="C12")
    src = PRE
    for name, prog, k, *extra in PROGRAMS:
        fam = "prog"
        src += "STMTS_%s = stmts_of(%r)\n" % (name, prog)
        pres = ["len(inputs) == %d" % k, SMALL] + list(extra) + ["not (%s)" % e for e in known_exclusions(known, fam + ":" + name)]
        src += fn_src(name, "inputs: List[int]", pres, ["return balanced_run(STMTS_%s, inputs)" % name])
        plan.obs.append(Ob(name, fam, "m", name, 120, "confirmed", "program %s: depth tuple (context_values, inputs, stacks, function_stack) and top-level context after every top-level statement" % prog,
                           "%d inputs, each an int in -1..3 (they drive loop counts, which branch runs, which iteration breaks)" % k))
    # generated programs (the same seeded derivations of the structure grammar as C01, incl. break / continue / recursion forms)
    try:
        from props.c01 import prepare
        gen = prepare(tier, seed)["keep"]
    except Exception as e:  # noqa
        gen = []
    for gi, P in enumerate(gen):
        name = "g%04d" % gi
        src += "STMTS_%s = stmts_of(%r)\n" % (name, P)
        src += fn_src(name, "inputs: List[int]", ["len(inputs) == 3", SMALL], ["return balanced_run(STMTS_%s, inputs)" % name])
        plan.obs.append(Ob(name, "generated", "m", name, 120, "confirmed", "generated program %s: depth tuple and top-level context after every top-level statement" % P, "3 inputs in -1..3"))
    src += fn_src("twin_for_break", "inputs: List[int]", ["len(inputs) == 3", SMALL], ["return balanced_run(STMTS_for_break_in_if, inputs) and inputs[0] < 2"])
    plan.obs.append(Ob("twin_for_break", "prog", "m", "twin_for_break", 120, "refuted", "reachability twin"))
    plan.modules["m"] = src
    plan.require_ok_marker = True
    plan.functions_encoded = ["vyxal/transpile.py: every structure template incl. BreakStatement / RecurseStatement lowering (text exec'ed symbolically)", "vyxal/helpers.py: pop get_input iterable wrapify safe_apply deep_copy",
                              "vyxal/LazyList.py: output", "vyxal/elements.py: vy_print function_call vy_map vy_filter modifiers' templates"]
    plan.inconclusive_ceiling = 0.5
    plan.rule = "skeleton = hand-written program with break/continue/recurse at a legal position or a lazy-list print, plus the seeded generated programs of C01 (%d); the solver quantifies" % len(gen) + " over the inputs that decide loop counts, branches and which iteration exits early"
    plan.assumptions = ["secrets.token_hex names are irrelevant (transpile runs once, concretely)", "print() is captured by a recorder", "a program that raises is outside the property ('finishes normally')"]
    plan.outside = ["programs not in the list", "inputs outside -1..3", "x (continue) directly in a while loop body: see DESIGN"]
    return plan
