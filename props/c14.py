"""C14 - finite prefixes of infinite lists are computed lazily and terminate (DESIGN.md C14)."""
import json
import os

from vfw.core import Ob, Plan, fn_src, known_exclusions, VERIF

PRE = '''from hlib.common import *
import itertools

class OverPull(Exception):
    pass

def lazy_prefix(code, n, a0, ds, bound, model):
    return lazy_prefix_v(code, n, list(itertools.accumulate([a0] + list(ds))), bound, model)

def lazy_prefix_v(code, n, V, bound, model):
    """first n items of the transformation applied to the infinite source a0, a0+d1, a0+d1+d2, ...; the source raises once
    more than `bound` items are pulled, so a transformation that forces the source fails instead of hanging"""
    pulls = [0]
    def src():
        for x in V[:bound]:
            pulls[0] += 1
            yield x
        raise OverPull("more than %d items pulled for the first %d items" % (bound, n))
    ll = LazyList(src(), isinf=True)
    ctx = Context()
    stack = [ll]
    ctx.stacks.append(stack)
    ns = fresh_ns(ctx, stack)
    try:
        exec(code, ns)
        r = stack[-1]
        got = [force(r[k]) for k in range(n)]
    except OverPull:
        return explain('source over-pulled', n, bound)
    want = model(V)[:n]
    if got != want:
        return explain('first n items differ from the model', n)
    return pulls[0] <= bound

'''


def build(tier, seed, known):
    plan = Plan(prop="C14")
    cat = json.load(open(os.path.join(VERIF, "c14_catalogue.json")))["entries"]
    nmax = 5 if tier == "quick" else 12
    src = PRE
    for e in cat:
        name = e["name"]
        bounds = e["declared_bound"]
        src += "CODE_%s = T.transpile(%r)\nMODEL_%s = lambda V: %s\nBOUND_%s = %r\n" % (name, e["code"], name, e["model"], name, bounds)
        for n in range(0, nmax + 1):
            b = bounds[n]
            need = max(b, n + 6, 3 * n + 6)  # enough source items for the model's image
            fam = "lazy:" + name
            pres = ["len(ds) == %d" % (need - 1), "all(d == 1 for d in ds)" if e["source"] == "consec" else "all(d > 0 for d in ds)"] + ["not (%s)" % x for x in known_exclusions(known, fam)]
            fn = "t_%s_n%d" % (name, n)
            if e["source"] == "str":
                pres = ["len(cs) == %d" % need] + pres[2:]
                src += fn_src(fn, "cs: str", pres, ["return lazy_prefix_v(CODE_%s, %d, [c for c in cs], %d, MODEL_%s)" % (name, n, b, name)])
            else:
                src += fn_src(fn, "a0: int, ds: List[int]", pres, ["return lazy_prefix(CODE_%s, %d, a0, ds, %d, MODEL_%s)" % (name, n, b, name)])
            plan.obs.append(Ob(fn, fam, "m", fn, 120 if tier == "quick" else 300, "confirmed",
                               "first %d items of `%s` (%s) on an infinite strictly increasing source: equal to the model, at most %d items pulled" % (n, e["code"], name, b),
                               "n = %d; source values symbolic (%s), unbounded ints" % (n, "consecutive integers from a symbolic start" if e["source"] == "consec" else ("one-character strings, any Unicode" if e["source"] == "str" else "arbitrary positive increments"))))
    src += fn_src("twin_cumsum", "a0: int, ds: List[int]", ["len(ds) == 8", "all(d > 0 for d in ds)"], ["return lazy_prefix(CODE_cumulative_sums, 3, a0, ds, 3, MODEL_cumulative_sums)"])
    plan.obs.append(Ob("twin_cumsum", "lazy:cumulative_sums", "m", "twin_cumsum", 120, "refuted", "reachability twin (declared bound one too small: the over-pull must be reported)"))
    plan.modules["m"] = src
    plan.functions_encoded = ["vyxal/LazyList.py: __getitem__ __next__ has_ind __iter__", "vyxal/elements.py: generator-based element implementations behind " + " ".join(sorted({e["code"] for e in cat})),
                              "vyxal/helpers.py: prefixes scanl vyxalify iterable deep_copy safe_apply", "vyxal/transpile.py: lambda / map / filter / modifier templates (text exec'ed)"]
    plan.rule = ("skeleton = (catalogued transformation or composition, n): %d entries x n = 0..%d; the solver quantifies over the source values (every strictly increasing integer sequence: symbolic start and positive increments); "
                 "the source raises when more than the declared bound is pulled, so every path terminates" % (len(cat), nmax))
    plan.assumptions = ["declared pull bounds = pulls measured on the pinned tree + 1 (c14_catalogue.json, frozen)", "filter-like entries use consecutive integers from a symbolic start so that a linear bound exists"]
    plan.outside = ["n > %d ('terminates for every n' is not claimed)" % nmax, "transformations not in the catalogue", "items other than ints and short strings"]
    plan.extra_coverage = {"catalogue_entries": len(cat)}
    return plan
