"""C01 - structures execute as specified: transpiled program == reference semantics (DESIGN.md C01)."""
import json
import os
import subprocess

from vfw.core import Ob, Plan, fn_src, known_exclusions, PY, REPO, VERIF

PRE = '''from hlib.refsem import *

def agree(code, tree, inputs):
    """exec of the transpiler's output vs the reference interpreter on the parser's tree: final stack and printed text"""
    rexc = oexc = None
    try:
        rs, rp, rctx = run_real(code, inputs)
    except Exception as e:
        rexc = type(e).__name__
    try:
        os_, op, ref = run_reference(tree, inputs)
    except Fuse:
        return note('reference fuse: program runs too long for these inputs')
    except Exception as e:
        oexc = type(e).__name__
    if rexc is not None and oexc is not None:
        return note('both sides reject these inputs', rexc, oexc)
    if rexc is not None or oexc is not None:
        return explain('one side raises', rexc, oexc)
    if rs != os_:
        return explain('final stacks differ')
    if rp != op:
        return explain('printed text differs')
    return path_ok()

def real_vy_eval_shim(x, ctx):
    return x if not isinstance(x, str) else _REAL_VY_EVAL(x, ctx)
_REAL_VY_EVAL = H.vy_eval

def agree_flags(prog, tree, inputs, flags):
    """main.execute_vyxal (implicit output, output flags, H/M/m) vs the reference interpreter's finish()"""
    rexc = oexc = None
    del PRINTED[:]
    M.vy_eval = real_vy_eval_shim
    try:
        try:
            M.execute_vyxal(prog, flags + "e", list(inputs))
        except Exception as e:
            rexc = type(e).__name__
    finally:
        M.vy_eval = _REAL_VY_EVAL
    rp = printed_text()
    try:
        os_, op, ref = run_reference(tree, inputs, flags, finish=True)
        op = printed_text()
    except Fuse:
        return note('reference fuse')
    except Exception as e:
        oexc = type(e).__name__
    if rexc is not None and oexc is not None:
        return note('both sides reject these inputs')
    if rexc is not None or oexc is not None:
        return explain('one side raises', rexc, oexc)
    if rp != op:
        return explain('captured output differs', flags)
    return path_ok()

'''

FLAGSETS = ["", "O", "o", "j", "s", "W", "H", "M", "m"]
HAND = ["?(n+)", "?[₀|u]?(n+)", "?ƛ₀+;∑", "@f:2|+;??@f;", "?ɾv›", "?₀₌+-", "?⟨₀|n|:+⟩", "??λ₀|?+;†?", "?(i|←i,)", "?{:|‹n,}", "?λ:[‹x];†", "@f:1|:[‹x];?@f;", "?(?[X]n,)", "?(?[x]n,)", "?ɾƒ+", "?ɾɖ+",
        "??~+", "?ɾ⁽∷F", "?ɾµN;", "?ɾ'∷;", "λ2|-;??$†", "?:[₀|?|₁|₄]", "?(n(n,))", "?£¥¥+", "?w:h", "₀?ß›", "?ɾ:ƛn›;$∑+", "?[₀|?|₁]", "?[₀|?|₁|?|₄]", "?[₀,|?|₁,|?|₄,|₆,]", "@f:1:a|←a-;??@f;", "@f:a:1|←a-;??@f;", "@f:2:a|←a-+;???@f;", "?~-", "~-", "?~+_", "?λ2|-;†", "λ3|--;†",
        "?(?(n?[X]n,)n,)", "?(?(n?[x]n,)n,)", "?ɾ(n:[X]n,)", "⟨?|?⟩(?(n?[X]),n,)"]
FLAG_PROGS = ["?", "??+→x", "?(n,)", "?w", "?ɾ", "", "?_", "?:", "₀", "?ɾ:"]


def _tree_key(tier, seed):
    import glob, hashlib
    h = hashlib.sha1(("%s|%s|" % (tier, seed)).encode())
    for f in sorted(glob.glob(os.path.join(REPO, "vyxal", "*.py"))) + [os.path.join(VERIF, "hlib", x) for x in ("refsem.py", "c01gen.py", "common.py")] + [os.path.abspath(__file__)]:
        h.update(open(f, "rb").read())
    return h.hexdigest()[:20]


def prepare(tier, seed):
    """generate, parse/transpile-check and totality-filter the skeleton programs concretely (subprocess on the tree under test).
    The result is cached under .cache/ keyed by the content of /repo/vyxal/*.py, the oracle and the generator."""
    cache = os.path.join(VERIF, ".cache", "c01prep_%s.json" % _tree_key(tier, seed))
    if os.path.exists(cache):
        try:
            return json.load(open(cache))
        except Exception:  # noqa
            pass
    out = _prepare(tier, seed)
    try:
        os.makedirs(os.path.dirname(cache), exist_ok=True)
        json.dump(out, open(cache + ".tmp%d" % os.getpid(), "w"))
        os.replace(cache + ".tmp%d" % os.getpid(), cache)
    except Exception:  # noqa
        pass
    return out


def _prepare(tier, seed):
    count = 160 if tier == "quick" else 1500
    prog = r'''
import sys, json, warnings, signal
warnings.filterwarnings("ignore")
sys.path[:0] = [%r, %r]
from hlib.refsem import *
from hlib.c01gen import programs
class TO(Exception): pass
def h(*a): raise TO()
signal.signal(signal.SIGALRM, h)
hand = %r
progs = hand + programs(%d, %d, 3) + (programs(%d + 7919, %d, 4) if %r else [])
INPUTS = [[0, 1, 2], [3, -1, 1], [1, 1, 0], [2, 0, 3], [-1, 2, 2], [0, 0, 0]]
keep, dropped, disagree = [], 0, []
for P in progs:
    try:
        tree = parse(tokenise(P)); code = T.transpile(P); compile(code, "p", "exec")
    except Exception as e:
        dropped += 1; continue
    ok = True; bad = None
    for inp in INPUTS:
        res = []
        for side in (0, 1):
            try:
                signal.alarm(4)
                r = run_real(code, list(inp))[:2] if side == 0 else run_reference(tree, list(inp))[:2]
                signal.alarm(0)
            except BaseException as e:
                signal.alarm(0); r = "EXC"
            res.append(r)
        if res[0] == "EXC" and res[1] == "EXC":
            ok = False; break
        if res[0] != res[1]:
            bad = [P, inp, repr(res[0])[:120], repr(res[1])[:120]]
    if bad:
        disagree.append(bad)
    if ok or bad:
        keep.append(P)
    else:
        dropped += 1
print(json.dumps({"keep": keep, "dropped": dropped, "disagree": disagree[:10], "ndisagree": len(disagree)}, ensure_ascii=False))
''' % (REPO, VERIF, HAND, seed, count, seed, count // 3, tier == "thorough")
    p = subprocess.run([PY, "-c", prog], stdin=subprocess.DEVNULL, stdout=subprocess.PIPE, stderr=subprocess.PIPE, timeout=3000)
    return json.loads(p.stdout.decode().strip().splitlines()[-1])


def build(tier, seed, known):
    plan = Plan(prop="C01", level="translation_validation")
    prep = prepare(tier, seed)
    src = PRE
    excl = known_exclusions(known, "program")
    for i, P in enumerate(prep["keep"]):
        name = "p%04d" % i
        src += "PROG_%s = %r\nCODE_%s = T.transpile(PROG_%s)\nTREE_%s = parse(tokenise(PROG_%s))\n" % (name, P, name, name, name, name)
        src += fn_src(name, "inputs: List[int]", ["len(inputs) == 3", "all(-1 <= x <= 3 for x in inputs)"] + ["not (%s)" % e for e in excl], ["return agree(CODE_%s, TREE_%s, inputs)" % (name, name)])
        plan.obs.append(Ob(name, "program", "m", name, 120 if tier == "quick" else 300, "confirmed", "program %s : exec(transpile(P)) vs reference semantics on parse(P): final stack and printed text" % P, "3 inputs, each an int in -1..3 (cyclic input stream)"))
    nflag = 14 if tier == "quick" else 60
    flagged = list(enumerate(prep["keep"][:nflag]))
    for j, P in enumerate(FLAG_PROGS):
        src += "PROG_pf%02d = %r\nTREE_pf%02d = parse(tokenise(PROG_pf%02d))\n" % (j, P, j, j)
        for fl in FLAGSETS + ["Wo", "jo", "so"]:
            name = "g%02d_%s" % (j, fl or "none")
            src += fn_src(name, "inputs: List[int]", ["len(inputs) <= 2", "all(-1 <= x <= 3 for x in inputs)"], ["return agree_flags(PROG_pf%02d, TREE_pf%02d, inputs, %r)" % (j, j, fl)])
            plan.obs.append(Ob(name, "flags", "m", name, 120, "confirmed", "program %r with flags %r (incl. empty final stacks): captured output of execute_vyxal vs reference implicit output" % (P, fl), "0..2 inputs in -1..3"))
    for i, P in flagged:
        for fl in FLAGSETS:
            name = "f%04d_%s" % (i, fl or "none")
            src += fn_src(name, "inputs: List[int]", ["len(inputs) == 3", "all(-1 <= x <= 3 for x in inputs)"], ["return agree_flags(PROG_p%04d, TREE_p%04d, inputs, %r)" % (i, i, fl)])
            plan.obs.append(Ob(name, "flags", "m", name, 120 if tier == "quick" else 300, "confirmed", "program %s with flags %r: captured output of execute_vyxal vs reference implicit output" % (P, fl), "3 inputs in -1..3"))
    src += fn_src("twin_prog", "inputs: List[int]", ["len(inputs) == 3", "all(-1 <= x <= 3 for x in inputs)"], ["return agree(CODE_p0000, TREE_p0001, inputs)"])
    plan.obs.append(Ob("twin_prog", "program", "m", "twin_prog", 120, "refuted", "reachability twin (the tree of another program)"))
    plan.modules["m"] = src
    plan.require_ok_marker = True
    plan.batch = 6
    plan.functions_encoded = ["vyxal/transpile.py: every structure template, lambda / function call protocol, modifier templates (output text exec'ed symbolically)", "vyxal/helpers.py: pop get_input wrapify iterable safe_apply deep_copy",
                              "vyxal/elements.py: templates and functions of the closed core, modifiers dict, vy_print function_call", "vyxal/main.py: execute_vyxal (implicit output, flags)", "vyxal/parse.py + lexer.py run concretely: their tree is the oracle's input"]
    plan.rule = ("skeleton = program: %d hand-written + seeded random derivations of the structure grammar over the closed core (depth <= %d), totality-filtered on 6 concrete input tuples (dropped %d); %d programs; the solver quantifies over the three "
                 "program inputs; oracle = refsem, a tree-walking interpreter written from Structures.md / Transpilation.md / Input.md / the modifier descriptions, which calls element functions but no template; plus %d programs x 9 flag sets through execute_vyxal"
                 % (len(HAND), 3 if tier == "quick" else 4, prep["dropped"], len(prep["keep"]), min(nflag, len(prep["keep"]))))
    plan.assumptions = ["the reference interpreter hlib/refsem.py is the trusted oracle (choices where the documents disagree are listed in DESIGN.md C01)", "secrets.token_hex names are irrelevant", "print() is captured by a recorder; sympy runs outside the tracer",
                        "element *functions* are shared by both sides (their correctness is C07/C08/C16's subject): only templates, plumbing and structure lowering are compared",
                        "a path on which both sides raise is outside the property (program not total on those inputs)"]
    plan.outside = ["programs outside the generated list", "inputs outside -1..3, list / string inputs", "variables assigned inside lambda / function / list-item bodies (Python-local in the tree, undocumented)", "lazy consumers with impure bodies", "star parameters"]
    plan.extra_coverage = {"programs": len(prep["keep"]), "concrete_prefilter_disagreements": prep["disagree"]}
    if prep["ndisagree"]:
        plan.post_steps.append(lambda ctx: {"notes": ["concrete pre-run already disagrees on %d programs (decided by the solver obligations)" % prep["ndisagree"]]})
    return plan
