"""C07 - rational arithmetic is exact and stays inside the number types (DESIGN.md C07)."""
import json
import subprocess

from vfw.core import Ob, Plan, fn_src, known_exclusions, PY, REPO, VERIF

PRE = '''from hlib.common import *
import fractions

def C():
    return Context()

def is_exact_number(r):
    return type(r) is int or isinstance(r, E.sympy.Rational)

def as_fraction(r):
    with NoTracing():
        import sympy
        return fractions.Fraction(int(sympy.numer(r)), int(sympy.denom(r)))

'''


def e3_step(ctx):
    env = {"PYTHONPATH": REPO + ":" + VERIF}
    import os
    e = dict(os.environ)
    e.update(env)
    p = subprocess.run([PY, "-m", "hlib.c07_e3", REPO], stdin=subprocess.DEVNULL, stdout=subprocess.PIPE, stderr=subprocess.PIPE, timeout=1800, env=e, cwd=VERIF)
    try:
        out = json.loads(p.stdout.decode().strip().splitlines()[-1])
    except Exception:
        return {"errors": ["E3 driver crashed: " + p.stderr.decode()[-800:]]}
    res = {"validated": out["validated"], "errors": out["errors"], "notes": ["E3 inconclusive: " + x for x in out["inconclusive"]], "violations": [],
           "coverage": {"e3_queries": len(out["queries"]), "e3_unsat": sum(1 for q in out["queries"] if q["result"] == "unsat"), "e3_solver_s": out["solver_s"], "e3_cvc5_cross_check": out["cvc5"],
                        "e3_stubs_used": out["stubs_used"], "e3_samples": out["queries"][:6] + out["queries"][-4:]}}
    known = ctx["known"]
    for v in out["violations"]:
        if any(e.get("status") == "known" and e.get("e3_query") == v["query"] and e.get("e3_tags") == v["tags"] for e in known):
            continue
        replay = ("import subprocess, sys\n# %s\nsys.exit(subprocess.call([sys.executable, '-m', 'hlib.c07_e3', '--replay', %r, %r, %r, %r, %r, %r], cwd=%r, env=dict(__import__('os').environ, PYTHONPATH=%r)))\n"
                  % (v["why"].replace("\n", " "), REPO, v["query"], v["tags"][0], v["tags"][1], v["a"], v["b"], VERIF, REPO + ":" + VERIF))
        res["violations"].append(("C07 (E3, replayed on the real function): " + v["why"], replay))
    return res


def build(tier, seed, known):
    plan = Plan(prop="C07")
    src = PRE

    def add(name, family, params, pres, body, timeout=120, desc="", bounds="", expect="confirmed"):
        nonlocal src
        pres = list(pres) + ["not (%s)" % e for e in known_exclusions(known, family)]
        src += fn_src(name, params, pres, body)
        plan.obs.append(Ob(name, family, "m", name, timeout, expect, desc, bounds))

    # tier A: the real functions on python ints, all ints
    for fn, op in (("add", "+"), ("subtract", "-"), ("multiply", "*")):
        add("int_" + fn, "pyint", "a: int, b: int", [], ["r = E.%s(a, b, C())" % fn, "return type(r) is int and r == a %s b" % op], 120, "%s on python ints: exact, stays int" % fn, "all integers (unbounded)")
    for fn, op in (("less_than", "<"), ("greater_than", ">"), ("less_than_or_equal", "<="), ("greater_than_or_equal", ">=")):
        add("int_" + fn, "pyint", "a: int, b: int", [], ["r = E.%s(a, b, C())" % fn, "return r == int(a %s b)" % op], 120, "%s on python ints" % fn, "all integers")
    Wf = 6 if tier == "quick" else 14
    add("int_floordiv_mod", "pyint", "a: int, b: int", ["-%d <= a <= %d" % (Wf, Wf), "-%d <= b <= %d" % (Wf, Wf), "b != 0"],
        ["a = pick(a, -%d, %d); b = pick(b, -%d, %d)" % (Wf, Wf, Wf, Wf), "q = E.integer_divide(a, b, C())", "r = E.modulo(a, b, C())", "if not (type(q) is int and type(r) is int): return explain('type')",
         "return q * b + r == a and (0 <= r < b if b > 0 else b < r <= 0)"], 900, "floor division and modulo on python ints: a == q*b + r with r between 0 and b, results are ints",
        "|a|,|b| <= %d (realisation-exhausted: since the exact-floor repair the operands enter sympy; unbounded operands are tier B's)" % Wf)
    add("int_div_by_zero", "pyint", "a: int", [], ["return E.divide(a, 0, C()) == 0 and E.integer_divide(a, 0, C()) == 0"], 120, "division and floor division by zero return 0", "all integers")
    W = 5 if tier == "quick" else 12
    add("int_divide_exact", "pyint", "a: int, b: int", ["-%d <= a <= %d" % (W, W), "-%d <= b <= %d" % (W, W), "b != 0"],
        ["a = pick(a, -%d, %d); b = pick(b, -%d, %d)" % (W, W, W, W), "r = E.divide(a, b, C())", "if not is_exact_number(r): return explain('not an exact number', type(r).__name__)",
         "return as_fraction(r) == fractions.Fraction(a, b)"], 900, "divide on python ints is the exact quotient (int or Rational, never a float)", "|a|,|b| <= %d (realisation-exhausted: the operands enter sympy)" % W)
    add("twin_int", "pyint", "a: int, b: int", [], ["return E.subtract(a, b, C()) == b - a"], 60, "reachability twin", "", "refuted")
    plan.modules["m"] = src
    plan.post_steps.append(lambda ctx: e3_step(dict(ctx, known=known)))
    plan.functions_encoded = ["vyxal/elements.py: add subtract multiply divide modulo integer_divide (E1: executed; E3: (NUMBER,NUMBER) overloads translated from the AST), less_than greater_than ... ; vy_type", "vyxal/helpers.py: vyxalify (E3 stub contract)"]
    plan.rule = ("tier A (CrossHair): the real functions on python ints, unbounded operands; floor division / modulo per concrete divisor; tier B (E3: AST -> z3, cross-checked with cvc5): six operators x operand type pairs {pyint, rational}^2 and four chained "
                 "identities, operands unbounded (Int / Real): exact value, result type in {int, rational}, zero rule; sat answers are replayed on the real functions")
    plan.assumptions = ["sympy's exact arithmetic on Integer/Rational (+ - * /, floor) is the trusted contract of tier B; sympify/Rational/vyxalify(rational=True) return exact rationals unchanged, default nsimplify is only tolerance-exact",
                        "the encoding is validated on a grid of 4.6k concrete operand pairs against the real functions (it was this validation that exposed sympy's off-by-one floor division)"]
    plan.outside = ["a defect inside sympy beyond the validated grid", "complex and irrational operands", "modulo by zero (raises; the property only fixes division and floor division by zero)"]
    return plan
