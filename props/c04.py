"""C04 - omitting trailing closers never changes the parse (DESIGN.md C04)."""
import itertools
import random

from vfw.core import Ob, Plan, fn_src, known_exclusions

PRE = '''from hlib.common import *
STRUCTURAL = "[({@λƛ'µ⟨])};⟩| Xxv⁽&~ßƒɖ₌‡₍≬0123456789.°" + chr(92) + chr(96) + "»«‛→←#k∆øÞ¨⁺"

def closers_ok(closed, nclosers):
    """every truncation of the trailing closers parses to the same tree (token values included)"""
    full = shape(parse(tokenise(closed)))
    for k in range(1, nclosers + 1):
        if shape(parse(tokenise(closed[: len(closed) - k]))) != full:
            return explain('parse differs after dropping trailing closers', k)
    return True

'''

OPENERS = [("[", "]"), ("[E|", "]"), ("[E|E|", "]"), ("(", ")"), ("(i|", ")"), ("{", "}"), ("{E|", "}"), ("λ", ";"), ("λ2|", ";"), ("ƛ", ";"), ("'", ";"), ("µ", ";"),
           ("⟨", "⟩"), ("⟨E|", "⟩"), ("@f:1|", ";"), ("@f|", ";")]
# innermost bodies: (text, trailing closer text, has payload)
INNER = [("E", "", False), ("", "", False), ("E`P", "`", True), ("`P", "`", True), ("E`P" + chr(92) + chr(92), "`", True), ("`" + chr(92) + "`P", "`", True), ("E‛P", "", True), ("E@g", ";", False), ("vE", "", False), ("₌EE", "", False), ("EλE;E", "", False), ("[E|E]", "", False)]
PREFIX = ["", "E", "[E|E]E", "λE;"]


def skeletons(tier, seed):
    out = []
    for (o, c), (body, bc, pay) in itertools.product(OPENERS, INNER):
        out.append(("", [(o, c)], body, bc, pay))
    rnd = random.Random(seed)
    d2 = [(p, [a, b], body, bc, pay) for p in PREFIX for a in OPENERS for b in OPENERS for (body, bc, pay) in INNER]
    d3 = [(p, [a, b, c], body, bc, pay) for p in PREFIX[:2] for a in OPENERS for b in OPENERS for c in OPENERS for (body, bc, pay) in INNER]
    # every depth-2 chain whose innermost body is empty or a single filler (a lone opener / element as the last item)
    out += [("", [a, b], body, bc, pay) for a in OPENERS for b in OPENERS for (body, bc, pay) in (INNER[1:2] if tier == 'quick' else INNER[:2])]
    # ... and the same chains without any filler after the openers (a lone opener as the last branch / list item)
    out += [("NOFILL", [a, b], "", "", False) for a in OPENERS for b in OPENERS]
    if tier == "quick":
        out += rnd.sample(d2, 80) + rnd.sample(d3, 30)
    else:
        out += d2[:0] + rnd.sample(d2, 1500) + rnd.sample(d3, 1200)
        d4 = [("", [a, b, c, d], body, bc, pay) for a in OPENERS for b in OPENERS for c in OPENERS for d in OPENERS for (body, bc, pay) in INNER[:8]]
        out += rnd.sample(d4, 300)
    return out


def build(tier, seed, known):
    plan = Plan(prop="C04")
    src = PRE
    sk = skeletons(tier, seed)
    excl = known_exclusions(known, "closers")
    for idx, (prefix, chain, body, bc, pay) in enumerate(sk):
        if prefix == "NOFILL":
            text = "".join(o for o, c in chain) + body
        else:
            text = prefix + "".join(o + ("E" if i % 2 else "") for i, (o, c) in enumerate(chain)) + body
        closers = bc + "".join(c for o, c in reversed(chain))
        closed = text + closers
        # python expression building the closed program from the holes e (filler) and p (payload)
        parts = []
        for ch in closed:
            if ch == "E":
                parts.append("e")
            elif ch == "P":
                parts.append("p")
            else:
                parts.append(repr(ch))
        # merge adjacent literals
        expr = " + ".join(parts)
        name = "s%04d" % idx
        params = "e: str" + (", p: str" if pay else "")
        pres = ["len(e) == 1", "e not in STRUCTURAL"]
        if pay:
            if "‛P" in closed:
                pres += ["len(p) == 2"]
            else:
                pres += ["len(p) <= 2", "chr(96) not in p", "chr(92) not in p"]
        pres += ["not (%s)" % x for x in excl]
        src += fn_src(name, params, pres, ["closed = " + expr, "return closers_ok(closed, %d)" % len(closers)])
        plan.obs.append(Ob(name, "closers", "m", name, 240, "confirmed", "closed skeleton %s : every truncation of its %d trailing closers parses to the same tree" % (closed, len(closers)),
                           "E = any single non-structural character (symbolic), P = literal payload (symbolic, <=2 chars); nesting depth %d" % len(chain)))
    src += fn_src("twin_closers", "e: str", ["len(e) == 1", "e not in STRUCTURAL"], ["closed = '[' + e + '|{' + e + '}]'", "return shape(parse(tokenise(closed[:-3]))) == shape(parse(tokenise(closed)))"])
    plan.obs.append(Ob("twin_closers", "closers", "m", "twin_closers", 60, "refuted", "reachability twin (dropping a non-closer changes the tree)"))
    plan.modules["m"] = src
    plan.batch = 8
    plan.functions_encoded = ["vyxal/lexer.py: tokenise", "vyxal/parse.py: parse _get_branches process_parameters variable_name", "vyxal/structure.py"]
    plan.rule = ("skeleton = closed program from the structure grammar (16 opener forms incl. branch prefixes x 10 innermost bodies; all of depth 1, all of depth 2 with an empty or single-element innermost body, seeded samples of depth 2, 3%s) — %d skeletons; every truncation point of the trailing closers (closing back-quote included) is walked; "
                 "the solver quantifies over the filler element character (any non-structural character) and the literal payload" % (" and 4" if tier == "thorough" else "", len(sk)))
    plan.assumptions = ["filler characters exclude openers, closers, |, space, modifiers, X, x, digits and literal introducers", "VERIF_SEED only selects which deeper skeletons are added"]
    plan.outside = ["nesting deeper than %d" % (3 if tier == "quick" else 4), "skeletons the generator does not produce", "an induction over nesting depth is not claimed"]
    plan.extra_coverage = {"skeletons": len(sk)}
    return plan
