"""C09 - an element touches only the stack entries it consumes (DESIGN.md C09)."""
import ast
import itertools
import os
import subprocess
import sys
import json

from vfw.core import Ob, Plan, fn_src, known_exclusions, PY, REPO, VERIF

WHOLE_STACK = {"W": "wrap", "^": "reverse stack", "!": "stack length", "„": "rotate", "‟": "rotate", "Ȯ": "over", "†": "call", "¨ẇ": "wrap n (documented whole-stack variant of wrap)"}
PLUMBING = {"pop", "wrapify", "deep_copy", "iterable", "get_input", "vy_type", "len", "list", "LazyList", "range", "int", "str", "eval", "exit", "input", "vy_eval"}

PRE = '''from hlib.common import *
import types as _types

TEMPLATES = {k: v[0] for k, v in E.elements.items()}
ARITY = {k: v[1] for k, v in E.elements.items()}

class SpyModule:
    def __init__(self, calls, name):
        self._calls, self._name = calls, name
    def __getattr__(self, attr):
        calls, nm = self._calls, self._name + "." + attr
        def spy(*a, **k):
            calls.append((nm, a))
            return ["spyA", "spyB"]
        return spy

def make_spy(name, calls):
    def spy(*a, **k):
        calls.append((name, a))
        return ["spyA", "spyB"]
    return spy

def run_template(key, spy_names, prefix, args, rev):
    ctx = Context()
    ctx.reverse_flag = rev
    ctx.inputs[0][0] = [7, 8, 9]
    ctx.global_array = [[5]]
    stack = list(prefix) + list(args)
    ctx.stacks.append(stack)
    calls = []
    ns = fresh_ns(ctx, stack)
    for nm in spy_names:
        ns[nm] = make_spy(nm, calls)
    ns["sympy"] = SpyModule(calls, "sympy")
    ns["exit"] = lambda *a: 0
    ns["input"] = no_stdin
    raised = None
    code = compile(TEMPLATES[key], "<template>", "exec")
    try:
        exec(code, ns)
    except Exception as e:
        raised = e
    return stack, calls, raised

def prefix_intact(stack, prefix, snap):
    if len(stack) < len(prefix):
        return explain('stack shorter than the prefix', len(stack), len(prefix))
    for i in range(len(prefix)):
        if stack[i] is not prefix[i]:
            return explain('prefix entry replaced', i)
        if prefix[i] != snap[i]:
            return explain('prefix entry mutated', i)
    return True

def c09_plain(key, spy_names, prefix, args, rev, fn_name):
    snap = [list(p) for p in prefix]
    stack, calls, raised = run_template(key, spy_names, prefix, args, rev)
    if raised is not None:
        # an element that rejects these argument kinds did not "execute"; the prefix must still be intact
        return prefix_intact(stack, prefix, snap) and note('raised', type(raised).__name__)
    if not prefix_intact(stack, prefix, snap):
        return False
    if fn_name is not None:
        mine = [c for c in calls if c[0] == fn_name]
        if len(mine) != 1:
            return explain('element function not called exactly once', len(mine))
        got = [a for a in mine[0][1] if not isinstance(a, Context)]
        want = list(args) if not rev else list(args)[::-1]
        if len(got) != len(want) or not all(g is w for g, w in zip(got, want)):
            return explain('element function did not receive exactly the top k entries in order')
        if len(stack) != len(prefix) + 1:
            return explain('function-template element must push exactly one result', len(stack) - len(prefix))
    return True

def c09_whole(key, spy_names, prefix, args, rev):
    """documented whole-stack operations: nothing may be lost or invented"""
    before = list(prefix) + list(args)
    stack, calls, raised = run_template(key, spy_names, prefix, args, rev)
    if raised is not None:
        return note('raised', type(raised).__name__)
    if key == "!":
        return len(stack) == len(before) + 1 and all(stack[i] is before[i] for i in range(len(before))) and stack[-1] == len(before)
    if key == "^":
        if len(stack) != len(before):
            return explain('reverse changed the stack size')
        if rev:  # flag r reverses every pop, so the two reversals cancel: only require that nothing is lost
            return all(any(s is b for s in stack) for b in before)
        return all(stack[i] is before[len(before) - 1 - i] for i in range(len(before)))
    if key in ("„", "‟"):
        if len(stack) != len(before):
            return explain('rotate changed the stack size')
        return all(any(s is b for s in stack) for b in before)
    if key == "W":
        return len(stack) == 1 and force(stack[0]) == force(before)
    if key == "Ȯ":
        if len(stack) != len(before) + 1 or not all(stack[i] is before[i] for i in range(len(before))):
            return explain('over disturbed the stack')
        return True
    return True

def run_program(code, prefix, args, rev):
    ctx = Context()
    ctx.reverse_flag = rev
    stack = list(prefix) + list(args)
    ctx.stacks.append(stack)
    ns = fresh_ns(ctx, stack)
    exec(code, ns)
    return stack

'''

MOD_PROGRAMS = [
    # (name, program, argument kinds top-last: 'i' int, 'l' list)
    ("v_inc", "v›", "l"), ("v_add", "v+", "li"), ("v_add_ll", "v+", "ll"),
    ("amp_inc", "&›", ""), ("amp_add", "&+", "i"),
    ("tilde_add", "~+", "ii"), ("tilde_filter", "~›", "l"),
    ("sz_inc_true", "ß›", "ii"),
    ("fold_add", "ƒ+", "l"), ("scan_add", "ɖ+", "l"),
    ("both_mm", "₌›‹", "i"), ("both_dd", "₌+-", "ii"), ("both_dm", "₌+›", "ii"), ("both_md", "₌›+", "ii"),
    ("pair_mm", "₍›‹", "i"), ("pair_dd", "₍+-", "ii"), ("pair_dm", "₍+‹", "ii"),
    ("lam1", "⁽›", ""), ("lam2", "‡›‹", ""), ("lam3", "≬›‹›", ""),
    ("lam1_call", "⁽›†", "i"), ("map_lambda", "ƛ›;", "l"), ("filter_lambda", "'›;", "l"), ("sort_lambda", "µN;", "l"),
    ("v_on_lambda", "vλ›;", "l"), ("fold_lambda", "ƒλ+;", "l"),
    # modifiers applied to niladic elements: the wrapped lambda must not take anything from the caller's stack
    ("sz_nilad", "ß₀", "i"), ("amp_nilad", "&₀", ""), ("both_nilads", "₌₀₁", ""), ("lam1_nilad_call", "⁽₀†", "i"), ("pair_nilad_monad", "₍₀›", "i"), ("both_nilad_context", "₌n¥", ""), ("sz_nilad_string", "ßð", "i"),
    ("lam2_nilads_call", "‡₀₁†", "i"), ("tilde_nilad", "~₀", ""),
]


def element_table():
    """Reads the live element table in a subprocess of the repo under test: key -> (template, arity, spy names, function-template name)"""
    prog = r'''
import sys, json, ast, types, warnings
warnings.filterwarnings("ignore")
sys.path[:0] = [%r, %r]
import vyxal.helpers, vyxal.elements as E, vyxal.main as M
import re
out = {}
for k, (t, a) in E.elements.items():
    names, syntax_ok = [], True
    try:
        tree = ast.parse(t)
        for node in ast.walk(tree):
            if isinstance(node, ast.Call) and isinstance(node.func, ast.Name):
                f = vars(M).get(node.func.id)
                if isinstance(f, types.FunctionType) and getattr(f, "__module__", "").startswith("vyxal"):
                    names.append(node.func.id)
    except SyntaxError:
        syntax_ok = False
    m = re.fullmatch(r"(?:(?:third, )?(?:rhs, )?lhs|_) = pop\(stack, \d, ctx\); stack\.append\((\w+)\((?:lhs(?:, rhs)?(?:, third)?|)(?:, )?ctx=ctx\)\)", t)
    out[k] = {"arity": a, "calls": sorted(set(names)), "fn": m.group(1) if m else None, "syntax_ok": syntax_ok}
print(json.dumps(out))
''' % (REPO, VERIF)
    p = subprocess.run([PY, "-c", prog], stdin=subprocess.DEVNULL, stdout=subprocess.PIPE, stderr=subprocess.PIPE, timeout=300)
    return json.loads(p.stdout.decode().strip().splitlines()[-1])


def ident(key):
    return "_".join("%x" % ord(c) for c in key)


def build(tier, seed, known):
    plan = Plan(prop="C09")
    table = element_table()
    src = PRE
    maxp = 2 if tier == "quick" else 4
    not_runnable = []
    n_el = 0
    for key, info in table.items():
        if not info["syntax_ok"]:
            not_runnable.append("%s: template is not valid Python (C02's concern), cannot be executed" % key)
            continue
        k = info["arity"]
        spies = [c for c in info["calls"] if c not in PLUMBING]
        if key in ("†",):
            spies = [c for c in spies if c != "function_call"]
        kinds_list = ["l" * k, "i" * k] if k else [""]
        if k == 2:
            kinds_list += ["il", "li"]
        if tier == "thorough" and k == 3:
            kinds_list += ["ill", "lli", "lil"]
        n_el += 1
        for kinds in kinds_list:
            name = "e_%s_%s" % (ident(key), kinds or "n")
            params = ["n: int", "rev: bool"]
            pres = ["0 <= n <= %d" % maxp]
            argexprs = []
            for j, kd in enumerate(kinds):
                if kd == "l":
                    params.append("a%d: List[int]" % j)
                    pres.append("len(a%d) <= 2" % j)
                    argexprs.append("a%d" % j)
                else:
                    argexprs.append(str(3 + j))
            fam = "whole_stack" if key in WHOLE_STACK else "element"
            pres += ["not (%s)" % e for e in known_exclusions(known, fam + ":" + key)]
            if key in WHOLE_STACK:
                body = ["prefix = [[100 + i, 200 + i] for i in range(n)]", "return c09_whole(%r, %r, prefix, [%s], rev)" % (key, spies, ", ".join(argexprs))]
            else:
                fn = info["fn"] if (info["fn"] in spies and kinds == "l" * k) else None
                body = ["prefix = [[100 + i, 200 + i] for i in range(n)]", "return c09_plain(%r, %r, prefix, [%s], rev, %r)" % (key, spies, ", ".join(argexprs), fn)]
            src += fn_src(name, ", ".join(params), pres, body)
            plan.obs.append(Ob(name, fam, "m", name, 60, "confirmed", "element %s (arity %d), argument kinds %s: prefix below the arguments keeps identity and contents%s" % (key, k, kinds or "-", "; the element function receives exactly the top k entries" if info["fn"] else ""),
                               "prefix: 0..%d sentinel lists (symbolic count; identity and contents observed); list arguments len<=2 with arbitrary ints; reverse flag symbolic" % maxp))
    # modifiers
    for name, prog, kinds in MOD_PROGRAMS:
        params = ["n: int"]
        pres = ["0 <= n <= %d" % maxp]
        argexprs = []
        for j, kd in enumerate(kinds):
            if kd == "l":
                params.append("a%d: List[int]" % j)
                pres.append("len(a%d) <= 2" % j)
                argexprs.append("a%d" % j)
            else:
                params.append("a%d: int" % j)
                argexprs.append("a%d" % j)
        src += "CODE_%s = T.transpile(%r)\n" % (name, prog)
        body = ["prefix = [[100 + i, 200 + i] for i in range(n)]", "snap = [list(p) for p in prefix]", "stack = run_program(CODE_%s, prefix, [%s], False)" % (name, ", ".join(argexprs)),
                "return prefix_intact(stack, prefix, snap)"]
        src += fn_src("m_" + name, ", ".join(params), pres, body)
        plan.obs.append(Ob("m_" + name, "modifier", "m", "m_" + name, 90, "confirmed", "modifier program %s on argument kinds %s: prefix untouched" % (prog, kinds or "-"), "prefix 0..%d sentinel lists (symbolic count); int arguments unbounded, list arguments len<=2" % maxp))
    # thorough: every monadic modifier applied to every function-template element (the element function is a spy inside the lambda)
    if tier == "thorough":
        for key, info in table.items():
            if not info["syntax_ok"] or info["fn"] is None or info["arity"] not in (1, 2) or key in WHOLE_STACK or key in ("Ė", "Q", "□", "¨U"):
                continue
            k = info["arity"]
            for mod in ("v", "~", "ß", "&"):
                if mod == "&" and k != 1:
                    continue
                nm = "x_%s_%s" % ({"v": "vec", "~": "tilde", "ß": "cond", "&": "reg"}[mod], ident(key))
                src += "CODE_%s = T.transpile(%r)\n" % (nm, mod + key)
                if mod == "v":
                    args = "[a0]" if k == 1 else "[a0, 5]"
                elif mod == "~":
                    args = "[a0]" if k == 1 else "[3, 4]"
                elif mod == "ß":
                    args = "[3, 1]" if k == 1 else "[3, 4, 1]"
                else:
                    args = "[]"
                body = ["prefix = [[100 + i, 200 + i] for i in range(n)]", "snap = [list(p) for p in prefix]", "ctx = Context(); stack = list(prefix) + %s; ctx.stacks.append(stack)" % args,
                        "ns = fresh_ns(ctx, stack); calls = []", "ns[%r] = make_spy(%r, calls)" % (info["fn"], info["fn"]), "try:", "    exec(CODE_%s, ns)" % nm, "    force_some(stack)", "except Exception as e:", "    return prefix_intact(stack, prefix, snap) and note('raised', type(e).__name__)",
                        "return prefix_intact(stack, prefix, snap)"]
                src += fn_src(nm, "n: int, a0: List[int]", ["0 <= n <= 3", "len(a0) <= 2"], body)
                plan.obs.append(Ob(nm, "modifier_x_element", "m", nm, 60, "confirmed", "modifier %s applied to element %s (spy): prefix untouched" % (mod, key), "prefix 0..3 sentinel lists, list argument len<=2"))
    # twins
    src += fn_src("twin_add", "n: int, rev: bool, a0: List[int], a1: List[int]", ["0 <= n <= 2", "len(a0) <= 2", "len(a1) <= 2"],
                  ["prefix = [[100 + i, 200 + i] for i in range(n)]", "ok = c09_plain('+', ['add'], prefix, [a0, a1], rev, 'add')", "return ok and len(prefix) < 2"])
    plan.obs.append(Ob("twin_add", "element", "m", "twin_add", 60, "refuted", "reachability twin"))
    src += fn_src("twin_mod", "n: int, a0: List[int]", ["0 <= n <= 2", "len(a0) <= 2"],
                  ["prefix = [[100 + i, 200 + i] for i in range(n)]", "stack = run_program(CODE_v_inc, prefix, [a0], False)", "return len(stack) != len(prefix) + 1"])
    plan.obs.append(Ob("twin_mod", "modifier", "m", "twin_mod", 60, "refuted", "reachability twin"))
    plan.modules["m"] = src
    plan.functions_encoded = ["vyxal/elements.py: the template string of every key of `elements` (exec'ed), process_element boilerplate, modifiers dict templates", "vyxal/helpers.py: pop wrapify deep_copy iterable get_input safe_apply",
                              "vyxal/transpile.py: modifier / lambda templates (for the modifier programs)"]
    plan.rule = ("skeleton = (element key, argument kinds) for all %d runnable keys of the live table, and %d modifier programs; the solver quantifies over the number of prefix entries below the arguments "
                 "(0..%d sentinel lists whose identity and contents are observed), the contents of list arguments and the reverse flag; element functions called by a template are spies (they receive values, not the stack)" % (n_el, len(MOD_PROGRAMS), maxp))
    plan.assumptions = ["element *functions* are replaced by spies returning a fresh 2-item list (they get values, never the stack), except function_call for †", "sympy is a spy module inside templates",
                        "whole-stack operations per the property: " + ", ".join("%s (%s)" % kv for kv in WHOLE_STACK.items()), "exit/input are stubbed; ctx.inputs holds three concrete inputs, the global array one item"]
    plan.outside = ["over-popping done inside an element function through ctx.stacks", "stacks shorter than the arity (C11)", "not runnable: " + "; ".join(not_runnable)]
    plan.extra_coverage = {"elements_covered": n_el, "not_runnable": not_runnable}
    return plan
