"""C03 - literal contents and comments are data, never syntax (DESIGN.md C03)."""
from vfw.core import Ob, Plan, fn_src, known_exclusions

CONTEXTS = [
    ("top", "{L}+"), ("top_after", "1{L}+2"),
    ("if_then", "[{L}|2]+"), ("if_else", "[1|{L}]+"), ("if_mid", "[1|{L}|3]+"), ("if_only", "[{L}]+"),
    ("for_body", "({L})+"), ("for_named", "(i|{L})+"),
    ("while_cond", "{{{L}|1}}+"), ("while_body", "{{1|{L}}}+"),
    ("lam", "λ{L};+"), ("lam_arity", "λ2|{L};+"), ("map", "ƛ{L};+"), ("filter", "'{L};+"), ("sort", "µ{L};+"),
    ("list_first", "⟨{L}|2⟩+"), ("list_last", "⟨1|{L}⟩+"), ("list_mid", "⟨1|{L}|3⟩+"),
    ("fn_body", "@f:1|{L};+"), ("fn_body_noparam", "@f|{L};+"),
    ("nest_if_for", "[1|({L})]+"), ("nest_lam_if", "λ[{L}|2];+"), ("nest_list_for", "⟨(i|{L})|3⟩+"), ("nest_while_lam", "{{λ{L};|1}}+"),
    ("mod_v", "v{L}+"), ("mod_dy_1", "₌{L}-+"), ("mod_dy_2", "₌-{L}+"), ("mod_tri_1", "≬{L}-*+"), ("mod_tri_2", "≬-{L}*+"), ("mod_tri_3", "≬-*{L}+"),
    ("mod_lam1", "⁽{L}+"), ("mod_lam2", "‡{L}-+"), ("mod_amp", "&{L}+"), ("mod_fold", "ƒ{L}+"),
    ("open_if", "[1|{L}"), ("open_for_lam", "(λ{L}"), ("open_list", "⟨1|{L}"), ("open_while", "{{{L}"),
    ("before_struct", "{L}[1|2]+"), ("between_closers", "([{L}])+"), ("after_break", "(X{L})+"), ("in_if_in_lam_branch", "λ1|[{L}|2];+"),
]
QUICK_CTX = None  # all

# kind: (how the literal is spelled from p, expected token (kind, value expr), preconditions, benign payload)
KINDS = {
    "str": ("chr(96) + @P@ + chr(96)", "('string', @P@)", ["len(p) <= @N@", "chr(96) not in p", "chr(92) not in p"], "qZ"),
    "stresc": ("chr(96) + 'a' + chr(92) + @P@ + 'b' + chr(96)", "('string', 'a' + chr(92) + @P@ + 'b')", ["len(p) == 1"], "q"),
    "two": ("'‛' + @P@", "('string', @P@)", ["len(p) == 2"], "qZ"),
    "chr": ("chr(92) + @P@", "('character', @P@)", ["len(p) == 1"], "q"),
    "cstr": ("'«' + @P@ + '«'", "('compressed_string', @P@)", ["len(p) <= @N@", "'«' not in p"], "qZ"),
    "cnum": ("'»' + @P@ + '»'", "('compressed_number', @P@)", ["len(p) <= @N@", "'»' not in p"], "qZ"),
    "cpn": ("'⁺' + @P@", "('codepage_number', @P@)", ["len(p) == 1"], "q"),
    "comment": ("'#' + @P@ + chr(10)", "None", ["len(p) <= @N@", "chr(10) not in p"], "qZ"),
}

PRE = '''from hlib.common import *

def c03_ok(text, ref_text, p0lit, explit):
    tree = parse(tokenise(text))
    ref = parse(tokenise(ref_text))
    if shape_nv(tree) != shape_nv(ref):
        return explain('shape differs')
    lits = literal_tokens(tree)
    rl = literal_tokens(ref)
    if len(lits) != len(rl):
        return explain('literal count')
    for a, b in zip(lits, rl):
        if p0lit is not None and b == p0lit:
            if a != explit:
                return explain('payload token', a)
        elif a != b:
            return explain('other literal changed', a, b)
    return True

'''


def build(tier, seed, known):
    plan = Plan(prop="C03")
    n = 4 if tier == "quick" else 8
    src = PRE
    for cname, ctx in CONTEXTS:
        for kname, (spell, tok, pres, p0) in KINDS.items():
            family = "lit_" + kname
            name = "c_%s__%s" % (cname, kname)
            pre, post = ctx.replace("{{", "{").replace("}}", "}").split("{L}")
            excl = known_exclusions(known, family)
            body = [
                "lit = %s" % spell.replace("@P@", "p"),
                "p0 = %r" % p0,
                "ref_lit = %s" % spell.replace("@P@", "p0"),
                "text = %r + lit + %r" % (pre, post),
                "ref_text = %r + ref_lit + %r" % (pre, post),
                "p0tok = %s" % tok.replace("@P@", "p0"),
                "return c03_ok(text, ref_text, p0tok, %s)" % tok.replace("@P@", "p"),
            ]
            pp = [x.replace("@N@", str(n)) for x in pres] + ["not (%s)" % e for e in excl]
            src += fn_src(name, "p: str", pp, body)
            plan.obs.append(Ob(name, family, "m", name, 60 if tier == "quick" else 240, "confirmed",
                               "literal kind %s in context %s: parse shape and all other tokens independent of the payload; payload token carries the payload" % (kname, ctx.replace("{{", "{").replace("}}", "}")),
                               "payload any Unicode, len<=%d (fixed length for 1/2-char kinds)" % n))
    # twins: wrong expected token
    for kname in ("str", "chr", "cnum"):
        spell, tok, pres, p0 = KINDS[kname]
        name = "twin_" + kname
        body = ["lit = %s" % spell.replace("@P@", "p"), "p0 = %r" % p0, "ref_lit = %s" % spell.replace("@P@", "p0"),
                "text = '[1|' + lit + ']+'", "ref_text = '[1|' + ref_lit + ']+'", "p0tok = %s" % tok.replace("@P@", "p0"),
                "return c03_ok(text, ref_text, p0tok, ('string', 'zz'))"]
        src += fn_src(name, "p: str", [x.replace("@N@", "2") for x in pres], body)
        plan.obs.append(Ob(name, "lit_" + kname, "m", name, 60, "refuted", "reachability twin (wrong expected token)"))
    plan.modules["m"] = src
    plan.batch = 8
    plan.functions_encoded = ["vyxal/lexer.py: tokenise", "vyxal/parse.py: parse _get_branches process_parameters variable_name", "vyxal/structure.py: constructors"]
    plan.rule = ("skeleton = (context, literal kind): %d contexts x %d kinds; the solver quantifies over the payload (any Unicode string valid for the kind); "
                 "oracle: shape of parse(tokenise(.)) with literal values dropped equals that of a benign payload, every other literal token unchanged, the payload token has value p" % (len(CONTEXTS), len(KINDS)))
    plan.assumptions = ["CrossHair's symbolic str model (z3 sequences) is faithful", "validity of a payload for its kind: no own delimiter (string: no back-quote/backslash, escape pairs in the stresc family; comment: no newline)"]
    plan.outside = ["payloads longer than %d" % n, "contexts not in the list", "literals in name positions (loop variable, function name): they name, they do not push"]
    return plan
