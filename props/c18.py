"""C18 - generated Python contains program text only as constants (DESIGN.md C18)."""
import json
import subprocess

from vfw.core import Ob, Plan, fn_src, known_exclusions, PY, REPO, VERIF


def corpus_validation(ctx):
    """Supplementary, concrete: every raw string-literal body of length <= 4 over an adversarial alphabet, in two contexts, through the
    real transpile + compile + AST comparison. It validates the lexical model (match_segments/pydecode) against CPython and catches
    implementations the symbolic half cannot follow (e.g. regex-based escaping)."""
    prog = r'''
import sys, json, itertools, warnings
warnings.filterwarnings("ignore")
sys.path[:0] = [%r, %r]
from hlib.c18lib import *
alpha = [chr(92), chr(96), chr(34), chr(39), chr(10), "a", ")", ";", "#", "("]
n = 0; bad = []; disagree = []
for pre, post in (("", " +"), ("1[", "|2]+")):
    ref = {dc: transpile_det(pre + chr(96) + "QZQ" + chr(96) + post, dc) for dc in (True, False)}
    for L in range(0, 6):
        for t in itertools.product(alpha, repeat=L):
            body = "".join(t)
            if L == 5 and (body[0] != chr(92) or pre):
                continue  # length 5: only bodies that start with an escape, in the first context
            i = 0; valid = True
            while i < len(body):
                if body[i] == chr(92):
                    if i + 1 >= len(body):
                        valid = False  # a trailing lone backslash escapes the closing back-quote
                    i += 2
                elif body[i] == chr(96):
                    valid = False  # an unescaped back-quote ends the literal: the rest is program text, not payload
                    break
                else:
                    i += 1
            if not valid:
                continue
            for dc in (False, True):
                n += 1
                try:
                    out = transpile_det(pre + chr(96) + body + chr(96) + post, dc)
                except Exception:
                    continue
                try:
                    same = ast_shape(out) == ast_shape(ref[dc]) and tok_shape(out) == tok_shape(ref[dc])
                except Exception:
                    continue
                lex = match_segments(out, ref[dc].split("QZQ"), "strbody")
                if not same:
                    bad.append([pre, body, post, dc])
                elif lex is not True:
                    disagree.append([body, dc, str(lex)])
print(json.dumps({"n": n, "bad": bad[:5], "nbad": len(bad), "disagree": disagree[:3]}))
''' % (REPO, VERIF)
    p = subprocess.run([PY, "-c", prog], stdin=subprocess.DEVNULL, stdout=subprocess.PIPE, stderr=subprocess.PIPE, timeout=1200)
    try:
        out = json.loads(p.stdout.decode().strip().splitlines()[-1])
    except Exception:
        return {"errors": ["C18 corpus validation crashed: " + p.stderr.decode()[-500:]]}
    res = {"validated": out["n"], "coverage": {"corpus_programs_compiled": out["n"], "lexical_model_stricter_than_ast_on": out["disagree"]}}
    if out["bad"]:
        pre, body, post, dc = out["bad"][0]
        replay = ("import sys, warnings; warnings.filterwarnings('ignore'); sys.path[:0]=[%r,%r]\nfrom hlib.c18lib import *\n"
                  "out = transpile_det(%r + chr(96) + %r + chr(96) + %r, %r)\nref = transpile_det(%r + chr(96) + 'QZQ' + chr(96) + %r, %r)\nprint(out)\n"
                  "sys.exit(0 if ast_shape(out) == ast_shape(ref) and tok_shape(out) == tok_shape(ref) else 1)\n" % (REPO, VERIF, pre, body, post, dc, pre, post, dc))
        res["violations"] = [("C18 corpus: string body %r changes the shape of the generated code (%d such bodies)" % (body, out["nbad"]), replay)]
    return res

PRE = '''from hlib.c18lib import *
CP = ENC.codepage
ADV = chr(34) + chr(39) + chr(92) + chr(10) + chr(13) + chr(0) + "[]^`:;(){}$%#" + chr(0x2028) + chr(0x85)
B27 = ENC.base_27_alphabet

'''

CONTEXTS = [("top", "", " +"), ("if_branch", "1[", "|2]+"), ("lam_in_for", "3(λ", ";†)"), ("list_item", "⟨1|", "⟩"), ("fn_body", "@f:1|", ";@f;"), ("mod_operand", "v", "+")]


def build(tier, seed, known):
    plan = Plan(prop="C18")
    src = PRE
    n = 2 if tier == "quick" else 4
    ctxs = CONTEXTS[:3] if tier == "quick" else CONTEXTS
    idn = 2 if tier == "quick" else 3

    def add(name, family, params, pres, body, timeout=120, desc="", bounds="", expect="confirmed"):
        nonlocal src
        pres = list(pres) + ["not (%s)" % e for e in known_exclusions(known, family)]
        src += fn_src(name, params, pres, body)
        plan.obs.append(Ob(name, family, "m", name, timeout if tier == "quick" else timeout * 4, expect, desc, bounds))

    # ---- F1: string literals at program level (pure-Python escaping, payload any Unicode) ----
    for cname, pre, post in ctxs:
        for L in range(0, n + 1):
            for dc in (True, False):
                if dc and L > (1 if tier == 'quick' else 2):
                    continue
                if dc and L == 1 and tier == 'quick' and cname != 'top':
                    continue
                nm = "str_%s_len%d_%s" % (cname, L, "dict" if dc else "raw")
                src += "REF_%s = transpile_det(%r + chr(96) + 'QZQ' + chr(96) + %r, %r)\n" % (nm, pre, post, dc)
                add(nm, "string", "p: str", ["len(p) == %d" % L, "chr(96) not in p", "chr(92) not in p"],
                    ["try:", "    out = transpile_det(%r + chr(96) + p + chr(96) + %r, %r)" % (pre, post, dc), "except Exception:", "    return note('transpile raised: nothing returned')",
                     "return code_ok(out, REF_%s, 'QZQ', 'strbody')" % nm], 200,
                    "back-quoted string payload in context %s…%s, dictionary compression %s: output == benign output with only the literal body replaced by a well-formed body" % (pre, post, dc), "payload any Unicode without back-quote/backslash, len == %d" % L)
        # escape pairs: backslash + any char inside the literal
        nm = "stresc_%s" % cname
        src += "REF_%s = transpile_det(%r + chr(96) + 'aQZQb' + chr(96) + %r, False)\n" % (nm, pre, post)
        add(nm, "string", "c: str", ["len(c) == 1"],
            ["try:", "    out = transpile_det(%r + chr(96) + 'a' + chr(92) + c + 'b' + chr(96) + %r, False)" % (pre, post), "except Exception:", "    return note('transpile raised')",
             "return code_ok(out, REF_%s.replace('aQZQb', 'QZQ'), 'QZQ', 'strbody')" % nm], 200, "escape pair backslash+c inside a string in context %s" % cname, "c any Unicode character")
        # an escape pair followed by arbitrary text (e.g. an escaped backslash followed by a bare quote)
        for L in (1, 2) if tier == "quick" else (1, 2, 3):
            if tier == "quick" and L == 2 and cname != "top":
                continue
            nm = "stresc_then_%s_len%d" % (cname, L)
            add(nm, "string", "c: str, p: str", ["len(c) == 1", "len(p) == %d" % L, "chr(96) not in p", "chr(92) not in p"],
                ["try:", "    out = transpile_det(%r + chr(96) + chr(92) + c + p + chr(96) + %r, False)" % (pre, post), "except Exception:", "    return note('transpile raised')",
                 "return code_ok(out, REF_stresc_%s.replace('aQZQb', 'QZQ'), 'QZQ', 'strbody')" % cname], 300,
                "escape pair backslash+c followed by a payload inside a string in context %s" % cname, "c any Unicode character; p any Unicode without back-quote/backslash, len == %d" % L)
        nm = "two_%s" % cname
        src += "REF_%s = transpile_det(%r + '‛Qz' + %r, False)\n" % (nm, pre, post)
        add(nm, "string", "p: str", ["len(p) == 2"],
            ["try:", "    out = transpile_det(%r + '‛' + p + %r, False)" % (pre, post), "except Exception:", "    return note('transpile raised')",
             "return code_ok(out, REF_%s, 'Qz', 'strbody')" % nm], 200, "two-character string payload in context %s" % cname, "p any 2 Unicode characters")
        nm = "comment_%s" % cname
        src += "REF_%s = transpile_det(%r + '#x' + chr(10) + %r, False)\n" % (nm, pre, post)
        add(nm, "comment", "p: str", ["len(p) <= %d" % n, "chr(10) not in p"],
            ["try:", "    out = transpile_det(%r + '#' + p + chr(10) + %r, False)" % (pre, post), "except Exception:", "    return note('transpile raised')",
             "return out == REF_%s or explain('comment text reached the output')" % nm], 200, "comment payload in context %s: output identical" % cname, "p any Unicode without newline, len<=%d" % n)
    # character / code-page number: the payload goes through !r / find(): realisation-exhausted over code page + adversarial set, at token level
    for kind, tt in (("chr", "CHARACTER"), ("cpn", "CODEPAGE_NUMBER")):
        src += "REF_%s = T.transpile_token(Token(TokenType.%s, 'Q'), 0, True)\n" % (kind, tt)
        add("%s_token" % kind, "charlike", "c: str", ["len(c) == 1", "c in CP or c in ADV"],
            ["line = T.transpile_token(Token(TokenType.%s, c), 0, True)" % tt, "return ast_confirm(line, REF_%s) or explain('character payload changed the code shape')" % kind], 600,
            "%s token lowering: AST of the emitted line == AST for the benign payload with constants blanked (realisation-exhausted)" % tt, "c in the 256-character code page or the adversarial set (quotes, backslash, CR, LF, NUL, brackets, U+2028, U+0085)")
    # ---- compressed literals: payload flows only through uncompress(); uncompress returns int / safe str ----
    add("compressed_flow", "compressed", "p: str, isnum: bool", ["len(p) <= 3"],
        ["seen = []", "real = T.uncompress", "def spy(tok):", "    seen.append(tok)", "    return 12345 if tok.name == TokenType.COMPRESSED_NUMBER else 'sentinel'",
         "T.uncompress = spy", "try:", "    tok = Token(TokenType.COMPRESSED_NUMBER if isnum else TokenType.COMPRESSED_STRING, p)", "    line = T.transpile_token(tok, 0, True)", "finally:", "    T.uncompress = real",
         "want = 'stack.append(12345)' if isnum else 'stack.append(' + chr(39) + 'sentinel' + chr(39) + ')'",
         "return len(seen) == 1 and seen[0] is tok and line == want + chr(10)"], 120, "COMPRESSED_* lowering: the token value reaches the output only through uncompress() and a repr", "token value any Unicode len<=3")
    add("uncompress_num_is_int", "compressed", "p: str", ["len(p) <= 1"], ["r = H.uncompress_num(p)", "return type(r) is int"], 120, "uncompress_num returns an int for every token value", "p any Unicode len<=%d" % idn)
    add("uncompress_str_safe", "compressed", "p: str", ["len(p) <= 1"],
        ["try:", "    r = H.uncompress_str(p)", "except IndexError:", "    return note('raises: transpile returns nothing')", "return type(r) is str and all(ch in B27 for ch in r)"], 300,
        "uncompress_str returns a string over [a-z ] for every token value (or raises)", "p any Unicode len<=1 (alphabet indexing realises)")
    # lexer lemma: compressed literal tokens carry exactly the payload (no delimiter inside)
    # ---- F2: identifier positions ----
    add("var_lexer", "ident", "p: str, setter: bool", ["len(p) <= %d" % idn],
        ["toks = tokenise(('→' if setter else '←') + p)", "if len(toks) < 1: return explain('no token')", "t = toks[0]",
         "if t.name != (TokenType.VARIABLE_SET if setter else TokenType.VARIABLE_GET): return explain('kind')",
         "return all(ch in IDCHARS and not ch.isdigit() for ch in t.value) and p.startswith(t.value)"], 200,
        "lexer: a variable token's value is a prefix of the following text made of ASCII letters/underscore only", "following text any Unicode len<=%d" % idn)
    for setter in (True, False):
        nm = "var_token_%s" % ("set" if setter else "get")
        add(nm, "ident", "p: str", ["len(p) <= 4", "all(ch in IDCHARS and not ch.isdigit() for ch in p)"],
            ["tok = Token(TokenType.VARIABLE_SET if %r else TokenType.VARIABLE_GET, p)" % setter, "line = T.transpile_token(tok, 0, True)",
             "if p == '': return 'ghost_variable' in line and 'VAR' not in line", "if p[0] == '_': return line.startswith(('ctx.VAR_' if %r else 'stack.append(ctx.VAR_') + p)" % setter,
             "return line.startswith(('VAR_' if %r else 'stack.append(VAR_') + p + (' = pop(stack, 1, ctx=ctx)' if %r else ');'))" % (setter, setter)], 200,
            "VARIABLE token lowering: fixed prefix + the (letters-only) name + fixed suffix", "names over [A-Za-z_], len<=4")
    add("loop_var_name", "ident", "p: str", ["len(p) <= %d" % idn], ["r = PARSE.variable_name([Token(TokenType.GENERAL, p)])", "return all(ch in IDCHARS and not ch.isdigit() for ch in r)"], 200,
        "parser: loop variable names keep ASCII letters/underscore only", "token text any Unicode len<=%d" % idn)
    # structure lowering: the name reaches the output only through re.sub (spied), and the patterns used keep identifier characters only
    src += "BODY = [STRUCT.GenericStatement([Token(TokenType.GENERAL, '+')])]\n"
    STRUCTS = {
        "for_loop_name": ("STRUCT.ForLoop([@P@], BODY)", "ForLoop with an arbitrary variable name"),
        "fn_call_name": ("STRUCT.FunctionCall(@P@)", "FunctionCall with an arbitrary name"),
        "fn_def_name": ("STRUCT.FunctionDef(@P@, [], BODY)", "FunctionDef with an arbitrary name"),
        "fn_param_name": ("STRUCT.FunctionDef('f', [@P@], BODY)", "FunctionDef with an arbitrary (non-numeric, non-star) parameter"),
    }
    for nm, (expr, what) in STRUCTS.items():
        src += "REF_%s, CALLS_%s = transpile_struct_spied(%s)\n" % (nm, nm, expr.replace("@P@", "'QZQ'"))
        pres = ["1 <= len(p) <= %d" % (n + 1)]
        body = []
        if nm == "fn_param_name":
            pres.append("p != '*'")
            body.append("if p.isnumeric(): return note('numeric parameter: other template')")
        body += ["out, calls = transpile_struct_spied(%s)" % expr.replace("@P@", "p"),
                 "if out != REF_%s: return explain('name reaches the output other than through the sanitiser')" % nm,
                 "ref_calls = [c for c in CALLS_%s if c[2] == 'QZQ']" % nm,
                 "mine = [c for c in calls if c[2] is p]",
                 "return len(mine) == len(ref_calls) and all(a[0] == b[0] and a[1] == b[1] for a, b in zip(mine, ref_calls))"]
        add(nm, "ident", "p: str", pres, body, 200, what + ": with re.sub spied the output is the fixed text; the name is passed to the sanitiser and nowhere else", "name any Unicode len 1..%d" % (n + 1))
    # numeric parameter slot: any text that passes isnumeric() may only surface as a number constant (or transpile raises)
    src += "REF_fn_param_num = transpile_struct_det(STRUCT.FunctionDef('f', ['7'], BODY))\n"
    src += "NUMERALS = '0123456789' + '²½' + chr(0x217d) + chr(0x217f) + chr(0x0663) + chr(0x4e00) + chr(0x2460) + chr(0x2167) + chr(0xff11)\n"
    add("fn_param_numeric", "ident", "p: str", ["1 <= len(p) <= 2", "all(ch in NUMERALS for ch in p)"] + (["len(p) == 1 or p[0] == '1' or p[0] == chr(0x217d)"] if tier == "quick" else []),
        ["try:", "    out = transpile_struct_det(STRUCT.FunctionDef('f', [p], BODY))", "except ValueError:", "    return note('transpile raised: nothing returned')",
         "return ast_confirm(out, REF_fn_param_num) or explain('numeric parameter text surfaced outside a number constant')"], 600,
        "FunctionDef lowering with a numeric-looking parameter (digits and Unicode numerals that pass isnumeric): AST == AST for parameter 7 with constants blanked, or transpile raises", "parameter over ASCII digits and 9 Unicode numerals (superscript, fraction, Roman, Arabic-Indic, CJK, circled, full-width), len 1..2 (realisation-exhausted)")
    src += "SAN_PATTERNS = sorted({c[0] for cs in (%s) for c in cs if c[2] == 'QZQ'})\n" % ", ".join("CALLS_" + k for k in STRUCTS)
    add("sanitiser_patterns", "ident", "s: str, which: int", ["len(s) <= %d" % (n + 1), "0 <= which < len(SAN_PATTERNS)"],
        ["import re as _re", "r = _re.sub(SAN_PATTERNS[which], '', s)", "return all(ch in IDCHARS for ch in r)"], 600,
        "every pattern the lowering passes to re.sub (collected from the live code) leaves identifier characters only", "any Unicode string len<=%d" % (n + 1))
    add("process_parameters", "ident", "p: str", ["len(p) <= %d" % idn],
        ["name, params = PARSE.process_parameters([Token(TokenType.GENERAL, p)])", "for q in params:", "    if q == '*' or q.isnumeric(): continue",
         "    if not all(ch in IDCHARS for ch in q): return explain('parameter keeps a non-identifier character')", "return True"], 400,
        "parser: parameter names extracted from arbitrary token text keep identifier characters only", "token text any Unicode len<=%d" % idn)
    src += "REF_lam = transpile_struct_det(STRUCT.Lambda(7, BODY))\n"
    add("lambda_arity", "ident", "k: int", ["0 <= k <= 12"], ["out = transpile_struct_det(STRUCT.Lambda(k, BODY))", "return ast_confirm(out, REF_lam)"], 200, "Lambda lowering: the arity appears only as an int constant", "arity 0..12 (realisation-exhausted)")
    # ---- raw whole programs: every NAME token of the generated module is template vocabulary or a VAR_/_lambda_ identifier ----
    src += "vocabulary()\n"
    add("raw_len1", "raw", "s: str", ["len(s) == 1", "s in CP or s in ADV"], ["try:", "    out = transpile_det(s)", "except Exception:", "    return note('transpile raised')", "return names_from_vocabulary(out)"], 600,
        "all one-character programs: names of the generated module come from the template vocabulary", "the character in the code page or the adversarial set (realisation-exhausted)")
    FIRSTS = "[({@λƛ'µ⟨])};⟩|vX" + chr(92) + chr(96) + "‛→←#k⁺«»1.°&~ß₌≬"
    for fi, fc in enumerate(FIRSTS if tier == "thorough" else "@→(" + chr(92)):
        add("raw_len2_first%d" % fi, "raw", "c: str", ["len(c) == 1", "c in CP or c in ADV"], ["try:", "    out = transpile_det(%r + c)" % fc, "except Exception:", "    return note('transpile raised')", "return names_from_vocabulary(out)"], 600,
            "all two-character programs starting with %r" % fc, "second character in the code page or the adversarial set (realisation-exhausted)")
    src += "NAMECH = '^$%+-.*!?=<>~' + 'aZ_9' + chr(10) + chr(13) + chr(0x2028) + chr(34)\nREF_rawcall = transpile_det('@aa;')\nREF_rawdef = transpile_det('@aa|+;')\n"
    add("raw_fn_call_name2", "raw", "c: str, d: str", ["len(c) == 1", "len(d) == 1", "c in NAMECH", "d in NAMECH"],
        ["try:", "    out = transpile_det('@' + c + d + ';')", "except Exception:", "    return note('transpile raised')", "return ast_confirm(out, REF_rawcall) or explain('function-call name characters changed the code shape')"], 600,
        "whole programs @cd; : AST and token sequence equal to those of @aa; with VAR_ tails blanked", "both name characters over operators, quotes, line breaks and identifier characters (realisation-exhausted)")
    add("raw_fn_def_name2", "raw", "c: str, d: str", ["len(c) == 1", "len(d) == 1", "c in NAMECH", "d in NAMECH"],
        ["try:", "    out = transpile_det('@' + c + d + '|+;')", "except Exception:", "    return note('transpile raised')", "return ast_confirm(out, REF_rawdef) or explain('function-definition name characters changed the code shape')"], 600,
        "whole programs @cd|+; : AST and token sequence equal to those of @aa|+;", "both name characters over operators, quotes, line breaks and identifier characters (realisation-exhausted)")
    add("twin_raw", "raw", "c: str", ["len(c) == 1", "c in CP or c in ADV"], ["out = transpile_det('(' + c)", "return names_from_vocabulary(out) and 'ghost_variable' not in out"], 300, "reachability twin for the raw family", "", "refuted")
    # twins
    add("twin_string", "string", "p: str", ["len(p) == 1", "chr(96) not in p", "chr(92) not in p"],
        ["out = transpile_det(chr(96) + p + chr(96), False)", "return code_ok(out, REF_str_top_len1_raw, 'QZQ', 'strbody') and p != chr(34)"], 120, "reachability twin", "", "refuted")
    add("twin_ident", "ident", "p: str", ["len(p) <= 2"], ["out, calls = transpile_struct_spied(STRUCT.FunctionCall(p))", "return out == REF_fn_call_name and len(p) < 2"], 120, "reachability twin", "", "refuted")
    plan.modules["m"] = src
    plan.post_steps.append(corpus_validation)
    plan.functions_encoded = ["vyxal/transpile.py: transpile transpile_token (STRING CHARACTER COMPRESSED_* CODEPAGE_NUMBER VARIABLE_*) transpile_structure (ForLoop FunctionCall FunctionDef Lambda)", "vyxal/lexer.py: tokenise", "vyxal/parse.py: parse variable_name process_parameters",
                              "vyxal/helpers.py: uncompress uncompress_dict uncompress_str uncompress_num indent_str"]
    plan.rule = ("per syntactic position that accepts program-chosen text, in %d surrounding contexts for literal positions: the solver quantifies over the payload; oracle (non-interference): the generated code equals the "
                 "benign-payload code except for a well-formed string-literal body / a [A-Za-z0-9_]* identifier tail at the places where the benign payload surfaced; any mismatch is confirmed or discarded by real compile + AST comparison" % len(CONTEXTS))
    plan.assumptions = ["secrets.token_hex is a deterministic counter", "repr() of a str/int is a valid Python constant (builtin semantics)", "name positions are decomposed: lexer/parser lemma (what text can become a name) + lowering lemma at token/structure level",
                        "output that cannot compile (raw CR/LF/NUL in a literal) returns nothing that could run: vacuous for this property (it is C02/C06's concern)"]
    plan.outside = ["payloads longer than the stated bounds", "character / code-page-number payloads outside the code page and the adversarial set (repr realises them)", "raw whole programs (measured: not confirmable at length 2)"]
    return plan
