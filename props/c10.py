"""C10 - values are immutable: no element changes a value another reference can see (DESIGN.md C10)."""
import json
import os
import re
import subprocess

from vfw.core import Ob, Plan, fn_src, known_exclusions, PY, REPO, VERIF

SKIP = {"Q", "ṁ", "℅", "ÞB", "Þ℅", "¨U", "kD", "kN", "kḋ", "kḊ", "kð", "□", "Ė", "†", "E", "∆Q", "∆q"}

PRE = '''from hlib.common import *

def arg_unchanged(fn_name, build, a, b, lazy):
    """call the real element function on arguments built from the symbolic lists, force the result, compare the arguments
    with their snapshots. build: list of 'a' | 'b' | int constants."""
    ctx = Context()
    ctx.inputs[0][0] = [7]
    fn = getattr(E, fn_name)
    snap_a, snap_b = list(a), list(b)
    args = []
    for x in build:
        if x == 'a':
            args.append(LazyList(iter(list(a))) if lazy else a)
        elif x == 'b':
            args.append(LazyList(iter(list(b))) if lazy else b)
        else:
            args.append(x)
    try:
        r = fn(*args, ctx=ctx)
        force_some(r)
    except Exception as e:
        return note('element rejects these arguments', type(e).__name__)
    for x, s in zip(args, [snap_a if y == 'a' else snap_b for y in build]):
        if isinstance(x, LazyList):
            if x.listify() != s:
                return explain('lazy argument denotes another sequence afterwards')
        elif isinstance(x, list):
            if x != s:
                return explain('list argument was changed in place')
    return path_ok()

def run_copy_program(stmts, a):
    ctx = Context()
    ctx.inputs[0][0] = [a]
    stack = []
    ctx.stacks.append(stack)
    ns = fresh_ns(ctx, stack)
    for code in stmts:
        exec(code, ns)
    return ctx, stack, ns

'''

# copy operations: (name, program prefix that makes a second reference, how to read the untouched copy afterwards)
COPY_OPS = [
    ("dup", "?:", "stack[0]"), ("triplicate_low", "?D", "stack[0]"), ("triplicate_mid", "?D", "stack[1]"), ("variable", "?→x ←x ", "ns['VAR_x']"), ("variable_twice", "?→x ←x ←x ", "stack[0]"),
    ("register", "?£ ¥", "ctx.register"), ("register_twice", "?£ ¥ ¥", "stack[0]"), ("global_array", "?:⅛", "ctx.global_array[0]"), ("global_array_copies", "?⅛ ¾h ¾h", "stack[0]"),
    ("input_object", "?", "ctx.inputs[0][0][0]"), ("bifurcate", "?Ḃ", "stack[0]"), ("dup_under_loop", "?:₀∷›(", "stack[0]"),
]
# transformations applied to the top copy (sympy-free on python ints); u› is the python int 0
TRANSFORMS = ["u›₀Ȧ", "s", "Ṙ", "U", "›", "₀p", "₀J", "Ḣ", "Ṫ", "f", "¦", "¯", "N", "d", "u›⁽›¨M", "λ+;Ḟ6Ẏ", "G_", "∑_", "Ṙs", "sṘ", "₀+", "t_", "h_", "y_", "÷", "ḣ_", "ṫ_", "u›₀Ȧ›", "su›₀Ȧ", "Ṙu›u Ȧ", "‹u›₀Ȧ", "L", "⁽+₀Ḟ3Ẏ_", "u›₀Ȧu›₁Ȧ", "u›:›\"⁽›¨M", "u›:›\"₀Ȧ", "u›:›\"⁽d¨M›"]


def table():
    prog = r'''
import sys, json, re, warnings
warnings.filterwarnings("ignore")
sys.path[:0] = [%r]
import vyxal.helpers, vyxal.elements as E
out = {}
for k, (t, a) in E.elements.items():
    m = re.fullmatch(r"(?:(?:third, )?(?:rhs, )?lhs|_) = pop\(stack, \d, ctx\); stack\.append\((\w+)\((?:lhs(?:, rhs)?(?:, third)?|)(?:, )?ctx=ctx\)\)", t)
    if m and a >= 1:
        out[k] = {"fn": m.group(1), "arity": a}
print(json.dumps(out))
''' % (REPO,)
    p = subprocess.run([PY, "-c", prog], stdin=subprocess.DEVNULL, stdout=subprocess.PIPE, stderr=subprocess.PIPE, timeout=300)
    return json.loads(p.stdout.decode().strip().splitlines()[-1])


VARIANTS = {1: [["a"]], 2: [["a", 1], [1, "a"], ["a", "b"], ["a", 0]], 3: [["a", 1, 2], [1, "a", 2], [1, 2, "a"], ["a", 0, "b"], ["a", "b", 1]]}


def ident(key):
    return "_".join("%x" % ord(c) for c in key)


def build(tier, seed, known):
    plan = Plan(prop="C10")
    src = PRE
    tab = table()
    frozen_path = os.path.join(VERIF, "c10_elements.json")
    triage = bool(os.environ.get("C10_TRIAGE"))
    frozen = json.load(open(frozen_path))["covered"] if (os.path.exists(frozen_path) and not triage) else None
    n_el = 0
    for key, info in tab.items():
        if key in SKIP:
            continue
        k = info["arity"]
        for vi, build_ in enumerate(VARIANTS[k]):
            for lazy in (False, True):
                oid = "a_%s_v%d_%s" % (ident(key), vi, "lazy" if lazy else "eager")
                if frozen is not None and oid not in frozen:
                    continue
                if triage and (lazy and vi > 0):
                    continue
                if tier == "quick" and frozen is not None and lazy and vi > 0:
                    continue
                uses_b = "b" in build_
                params = "a: List[int]" + (", b: List[int]" if uses_b else "")
                pres = ["len(a) <= 3"] + (["len(b) <= 2"] if uses_b else []) + ["not (%s)" % e for e in known_exclusions(known, "element:" + key)]
                src += fn_src(oid, params, pres, ["return arg_unchanged(%r, %r, a, %s, %r)" % (info["fn"], build_, "b" if uses_b else "[]", lazy)])
                plan.obs.append(Ob(oid, "element:" + key, "m", oid, 6 if triage else 60, "confirmed", "element %s (%s) called on %s %s: arguments unchanged after the result is forced" % (key, info["fn"], build_, "lazy" if lazy else "eager"),
                                   "list arguments len<=3 (second list <=2), unbounded ints; scalar slots concrete"))
        n_el += 1
    # family B: copies
    for cname, prefix, reader in COPY_OPS:
        for ti, tr in enumerate(TRANSFORMS):
            if tier != "thorough" and not (ti < 20 or ti >= 34):  # quick: the first 20 and the multi-position ¨M / Ȧ programs
                continue
            oid = "b_%s_t%d" % (cname, ti)
            prog = prefix + tr
            src += "STMTS_%s = stmts_of(%r)\n" % (oid, prog)
            body = ["snap = list(a)", "try:", "    ctx, stack, ns = run_copy_program(STMTS_%s, a)" % oid, "    force_some(stack)", "except Exception as e:", "    return note('program raised', type(e).__name__)",
                    "other = %s" % reader, "if force(other) != snap: return explain('the untouched copy changed')", "if a != snap: return explain('the input value changed')", "return path_ok()"]
            src += fn_src(oid, "a: List[int]", ["len(a) <= 3"] + ["not (%s)" % e for e in known_exclusions(known, "copy:" + cname)], body)
            plan.obs.append(Ob(oid, "copy:" + cname, "m", oid, 120, "confirmed", "program %s on a list input: the other reference (%s) still denotes the input" % (prog, reader), "input list len<=3, unbounded ints"))
    # family C: a lazy value that is partially evaluated, then copied, then evaluated further; and nested (matrix) values
    LAZY_PROGS = [("partial_then_dup_then_len", "?:$→x ←x h_ ←x: L_", "stack[-1]", "a"), ("partial_then_dup_then_tail", "?:$→x ←x h_ ←x: t_", "stack[-1]", "a"),
                  ("partial_then_triplicate", "?:$→x ←x h_ ←x D L_ _", "stack[-1]", "a"), ("partial_var_then_sum", "?:$→x ←x h_ ←x→y ←x ∑_ ←y", "stack[-1]", "a"),
                  ("reverse_view_then_len", "?:$Ṙ→x ←x h_ ←x: L_", "stack[-1]", "a[::-1]"),
                  ("global_array_snapshot_then_push", "?⅛ ¾ ?⅛", "stack[0]", "[a]"), ("global_array_snapshot_then_pop", "?⅛ ?⅛ ¾ ¼_", "stack[0]", "[a, a]"),
                  ("register_snapshot_then_overwrite", "?£ ¥ ₀£", "stack[0]", "a"), ("variable_snapshot_then_overwrite", "?→x ←x ₀→x", "stack[0]", "a")]
    for nm, prog, reader, want in LAZY_PROGS:
        oid = "c_" + nm
        src += "STMTS_%s = stmts_of(%r)\n" % (oid, prog)
        body = ["snap = list(a)", "try:", "    ctx, stack, ns = run_copy_program(STMTS_%s, a)" % oid, "except Exception as e:", "    return note('program raised', type(e).__name__)",
                "if force(%s) != %s: return explain('the copy of a partially evaluated lazy list changed')" % (reader, want.replace("a", "snap")), "if a != snap: return explain('the input value changed')", "return path_ok()"]
        src += fn_src(oid, "a: List[int]", ["len(a) <= 4"], body)
        plan.obs.append(Ob(oid, "lazy_copy", "m", oid, 120, "confirmed", "program %s: a lazy list evaluated partially, copied, evaluated further: the copy still denotes the input" % prog, "input list len<=4, unbounded ints"))
    NESTED = ["ÞḊ_", "f", "∑_", "vṘ", "ÞT", "vs", "Þf" if False else "v∑", "vL", "ÞD" if False else "h_", "vḢ", "vN", "Ṙ", "∩" if False else "vU"]
    for ti, tr in enumerate(NESTED):
        oid = "d_nested_t%d" % ti
        src += "STMTS_%s = stmts_of(%r)\n" % (oid, "?:" + tr)
        conc = tr.startswith("Þ")  # matrix elements run sympy objects' own methods: executed outside the tracer on picked concrete rows
        body = (["a = pick_list(a, -1, 2, 2); b = pick_list(b, -1, 2, 2)"] if conc else []) + ["m = [list(a), list(b)]", "snap = [list(a), list(b)]", "try:",
                "    ctx, stack, ns = %s" % ("outside_tracer(run_copy_program, STMTS_%s, m)" % oid if conc else "run_copy_program(STMTS_%s, m)" % oid), "    force_some(stack)", "except Exception as e:", "    return note('program raised', type(e).__name__)",
                "if force(stack[0]) != snap: return explain('the untouched copy of the nested value changed')", "if m != snap: return explain('the nested input value changed in place')", "return path_ok()"]
        src += fn_src(oid, "a: List[int], b: List[int]", ["len(a) <= 2", "len(b) <= 2", "all(-1 <= x <= 2 for x in a)", "all(-1 <= x <= 2 for x in b)"], body)
        plan.obs.append(Ob(oid, "nested_copy", "m", oid, 200, "confirmed", "program ?:%s on a nested (ragged matrix) input: the other copy and the input rows are unchanged" % tr, "two rows of length <=2, items in -1..2 (sympy realises them)"))
    src += fn_src("twin_copy", "a: List[int]", ["1 <= len(a) <= 3"], ["ctx, stack, ns = run_copy_program(STMTS_b_dup_t4, a)", "return force(stack[-1]) == list(a)"])
    plan.obs.append(Ob("twin_copy", "copy:dup", "m", "twin_copy", 60, "refuted", "reachability twin (the transformed copy does differ)"))
    plan.modules["m"] = src
    plan.require_ok_marker = True
    plan.inconclusive_ceiling = 0.95 if triage else 0.3
    plan.functions_encoded = ["vyxal/elements.py: every function-template element of arity >= 1 in the frozen covered set (c10_elements.json), templates of : D Ḃ £ ¥ ⅛ ¾ W → ←", "vyxal/helpers.py: deep_copy iterable wrapify pop", "vyxal/LazyList.py: __setitem__ __getitem__ listify"]
    plan.rule = ("family A: (element function, which slots hold lists, eager|lazy) for the frozen set of elements that the solver can follow; the solver quantifies over the list contents; the result is forced, then arguments are compared with snapshots. "
                 "family B: copy operation x transformation programs on a symbolic list input; the untouched reference must still equal the input")
    plan.assumptions = ["scalar slots are concrete small ints", "an element that raises on these argument kinds did not run (vacuous path); an obligation with no normally finishing path is inconclusive, not claimed",
                        "excluded as nondeterministic/external: " + " ".join(sorted(SKIP))]
    plan.outside = ["elements outside the frozen covered set (their list overload enters sympy on symbolic data or rejects integer lists)", "strings / nested lists as items", "lists longer than 3"]
    plan.extra_coverage = {"elements_in_table": n_el}
    return plan
