"""C05 - numeric literals denote exactly their decimal value (DESIGN.md C05)."""
import json
import subprocess

from vfw.core import Ob, Plan, fn_src, known_exclusions, PY, REPO, VERIF

PRE = '''from hlib.common import *
DIG = "0123456789"

def ref_split(s):
    """independent reference splitter written from the lexer's documented rules: a leading 0 stands alone unless followed
    by a point; a number takes digits and at most one point; a second point starts a new number"""
    out = []
    i = 0
    n = len(s)
    while i < n:
        if s[i] == "0" and not (i + 1 < n and s[i + 1] == "."):
            out.append("0")
            i += 1
            continue
        j = i
        dots = 0
        while j < n and (s[j] in DIG or (s[j] == "." and dots == 0)):
            if s[j] == ".":
                dots += 1
            j += 1
        out.append(s[i:j])
        i = j
    return out

REF_INT = T.transpile_token(Token(TokenType.NUMBER, "7"), 0, True).split("7")
REF_DEC = T.transpile_token(Token(TokenType.NUMBER, "7.25"), 0, True).split("7.25")

def lowering_ok(tok):
    line = T.transpile_token(tok, 0, True)
    text = "0.5" if tok.value == "." else tok.value
    ref = REF_DEC if "." in tok.value else REF_INT
    if len(ref) != 2:
        return explain('reference lowering does not contain its literal exactly once')
    if line != ref[0] + text + ref[1]:
        return explain('lowering does not emit the literal own digits into the fixed constructor call')
    return True

def literals_ok(s):
    toks = tokenise(s)
    want = ref_split(s)
    if len(toks) != len(want):
        return explain('token count', len(toks), len(want))
    for t, w in zip(toks, want):
        if t.name != TokenType.NUMBER or t.value != w:
            return explain('token differs from the documented split')
        if not lowering_ok(t):
            return False
    return True

'''


def evaluate_corpus(ctx):
    """Half 2 (trusted stub, validated concretely): the constructor call the lowering emits evaluates to Fraction(text)."""
    prog = r'''
import sys, json, warnings, itertools, fractions
warnings.filterwarnings("ignore")
sys.path[:0] = [%r, %r]
import sympy
import vyxal.helpers, vyxal.transpile as T, vyxal.main as M
from vyxal.context import Context
hard = ["1.4142135623730951", "2.718281828459045", "0.333333333333333", "3.141592653589793", "0.1", "0.30000000000000004", "1.7320508075688772", "0.6931471805599453", "2.23606797749979",
        "1.618033988749895", "0.5", ".5", "5.", ".", "0.", "0.0", "10.10", "123456789012345678901234567890", "1" + "0" * 60, "99999999999999999999.999999999999999999", "0.000000000000000001",
        "1234567890123456789012345.123456789012345678"]
lits = list(hard)
for L in (1, 2, 3):
    for t in itertools.product("0159.", repeat=L):
        lits.append("".join(t))
for k in range(0, 1000, 7):
    lits.append(str(k)); lits.append(str(k) + "." + str(k)[::-1])
bad = []; n = 0
for lit in lits:
    if lit.count(".") > 1 or lit == "":
        continue
    if len(lit) > 1 and lit[0] == "0" and lit[1] != ".":
        continue  # splits into several literals (lexer rule, decided symbolically)
    n += 1
    ctx = Context(); stack = []; ctx.stacks.append(stack)
    ns = dict(vars(M)); ns["ctx"] = ctx; ns["stack"] = stack
    try:
        exec(T.transpile(lit), ns)
    except Exception as e:
        bad.append([lit, "raised " + type(e).__name__]); continue
    want = fractions.Fraction("0.5" if lit == "." else (lit + "0" if lit.endswith(".") else lit))
    v = stack[-1] if len(stack) == 1 else None
    ok = v is not None and isinstance(v, (int, sympy.Rational)) and not isinstance(v, float)
    if ok:
        try:
            ok = fractions.Fraction(int(sympy.numer(v)), int(sympy.denom(v))) == want
        except Exception:
            ok = False
    if not ok:
        bad.append([lit, repr(v)])
print(json.dumps({"n": n, "bad": bad[:5], "nbad": len(bad)}))
''' % (REPO, VERIF)
    p = subprocess.run([PY, "-c", prog], stdin=subprocess.DEVNULL, stdout=subprocess.PIPE, stderr=subprocess.PIPE, timeout=900)
    try:
        out = json.loads(p.stdout.decode().strip().splitlines()[-1])
    except Exception:
        return {"errors": ["C05 corpus crashed: " + p.stderr.decode()[-500:]]}
    res = {"validated": out["n"], "coverage": {"literals_evaluated_concretely": out["n"]}}
    if out["bad"]:
        lit, got = out["bad"][0]
        replay = ("import sys, warnings, fractions; warnings.filterwarnings('ignore'); sys.path[:0]=[%r,%r]\nimport sympy, vyxal.helpers, vyxal.transpile as T, vyxal.main as M\nfrom vyxal.context import Context\n"
                  "ctx=Context(); stack=[]; ctx.stacks.append(stack); ns=dict(vars(M)); ns['ctx']=ctx; ns['stack']=stack\nexec(T.transpile(%r), ns)\nprint(stack)\n"
                  "v=stack[-1]\nsys.exit(0 if isinstance(v,(int,sympy.Rational)) and fractions.Fraction(int(sympy.numer(v)), int(sympy.denom(v))) == fractions.Fraction(%r) else 1)\n" % (REPO, VERIF, lit, "0.5" if lit == "." else (lit + "0" if lit.endswith(".") else lit)))
        res["violations"] = [("C05: literal %s pushes %s (%d literals wrong)" % (lit, got, out["nbad"]), replay)]
    return res


def build(tier, seed, known):
    plan = Plan(prop="C05")
    src = PRE
    n = 6 if tier == "quick" else 8
    excl = known_exclusions(known, "lex")
    for L in range(0, n + 1):
        if L <= 4:
            name = "lit_len%d" % L
            src += fn_src(name, "s: str", ["len(s) == %d" % L, "all(c in '0123456789.' for c in s)"] + ["not (%s)" % e for e in excl], ["return literals_ok(s)"])
            plan.obs.append(Ob(name, "lex", "m", name, 300, "confirmed", "tokenise(s) == documented split and every NUMBER token is lowered to its own digits", "all strings over [0-9.] of length %d" % L))
        else:
            # split by the class (zero / non-zero digit / point) of the first two characters
            classes = [("z", "{x} == '0'"), ("d", "{x} in '123456789'"), ("p", "{x} == '.'")]
            for c0 in classes:
                for c1 in classes:
                    name = "lit_len%d_%s%s" % (L, c0[0], c1[0])
                    pres = ["len(s) == %d" % L, "all(c in '0123456789.' for c in s)", c0[1].format(x="s[0]"), c1[1].format(x="s[1]")] + ["not (%s)" % e for e in excl]
                    src += fn_src(name, "s: str", pres, ["return literals_ok(s)"])
                    plan.obs.append(Ob(name, "lex", "m", name, 600, "confirmed", "tokenise(s) == documented split and lowering, first characters in classes %s%s" % (c0[0], c1[0]), "all strings over [0-9.] of length %d" % L))
    src += fn_src("twin_lit", "s: str", ["len(s) == 2", "all(c in '0123456789.' for c in s)"], ["return literals_ok(s) and len(tokenise(s)) == 1"])
    plan.obs.append(Ob("twin_lit", "lex", "m", "twin_lit", 60, "refuted", "reachability twin (00 splits in two)"))
    plan.modules["m"] = src
    plan.post_steps.append(evaluate_corpus)
    plan.functions_encoded = ["vyxal/lexer.py: tokenise (digits branch)", "vyxal/transpile.py: transpile_token (NUMBER)"]
    plan.rule = ("half 1 (decided by the solver): for every string over [0-9.] up to length %d the lexer splits as documented and each NUMBER token is lowered to the fixed constructor call on its own digits (bare point -> 0.5); "
                 "half 2 (trusted stub, validated concretely): the constructor evaluates to Fraction(text) on hard literals, all strings of length <=3 over {0,1,5,9,.} and a sweep" % n)
    plan.assumptions = ["sympy's constructors (Rational(text) for decimals, nsimplify(text) for integers) evaluate their digit string exactly: validated concretely on the corpus, not decided by the solver"]
    plan.outside = ["literals longer than %d characters (lexing/lowering)" % n, "the ° (complex) notation", "sympy's evaluation beyond the validated corpus"]
    return plan
