"""C13 - a finite lazy list is indistinguishable from the list it enumerates (DESIGN.md C13)."""
import itertools
import random

from vfw.core import Ob, Plan, fn_src, known_exclusions

# operation kinds: preconditions and code over parameters {a},{b},{c}; `ll` is the LazyList, `src` the model
WIN = "-(len(src) + @W@) <= {x} <= len(src) + @W@"
OPS = {
    "idx": dict(pre=["{a} >= 0"], code=["if ll[{a}] != (src[{a} % len(src)] if len(src) else 0): return explain('idx', {a})"]),
    "neg": dict(pre=["{a} < 0", "-{a} <= len(src)"], code=["if ll[{a}] != src[{a}]: return explain('neg', {a})"]),
    "slice_to": dict(pre=[WIN.format(x="{b}")], code=["n_ = pick(len(src), 0, 3); {b} = pick({b}, -(n_ + @W@), n_ + @W@)", "if list(ll[:{b}]) != src[:{b}]: return explain('slice_to', {b})"]),
    "slice_from": dict(
        pre=[WIN.format(x="{a}"), "1 <= {c} <= 3"],
        code=["n_ = pick(len(src), 0, 3); {a} = pick({a}, -(n_ + @W@), n_ + @W@); {c} = pick({c}, 1, 3)",
              "if list(ll[{a}::{c}]) != src[{a}::{c}]: return explain('slice_from', {a}, {c})"],
    ),
    "len": dict(pre=[], code=["if len(ll) != len(src): return explain('len')"]),
    "iter": dict(pre=[], code=["if [x for x in ll] != src: return explain('iter')"]),
    "bool": dict(pre=[], code=["if bool(ll) != (len(src) > 0): return explain('bool')"]),
    "in": dict(pre=[], code=["if bool({a} in ll) != ({a} in src): return explain('in', {a})"]),
    "eq_list": dict(pre=["len({L}) <= 3"], code=["if bool(ll == list({L})) != (src == list({L})): return explain('eq_list')"]),
    "eq_lazy": dict(pre=["len({L}) <= 3"], code=["if bool(ll == LazyList(iter(list({L})))) != (src == list({L})): return explain('eq_lazy')"]),
    "count": dict(pre=[], code=["if ll.count({a}) != src.count({a}): return explain('count', {a})"]),
    "reversed": dict(pre=[], code=["if list(ll.reversed()) != src[::-1]: return explain('reversed')"]),
    "copy": dict(pre=[], code=["cp = H.deep_copy(ll)", "if list(cp) != src: return explain('copy')"]),
    "copy_idx": dict(
        pre=["{a} >= 0"],
        code=["cp = H.deep_copy(ll)", "if cp[{a}] != (src[{a} % len(src)] if len(src) else 0): return explain('copy_idx', {a})"],
    ),
    "copy_late": dict(pre=[], code=["cp = H.deep_copy(ll)", "if len(ll) != len(src): return explain('len')", "if list(cp) != src: return explain('copy read after the original was evaluated further')"]),
    "iter_interleaved": dict(pre=["{a} >= 0"], code=["it_ = iter(ll); got_ = []", "if len(src) > 0: got_.append(next(it_))", "ll[{a}]", "got_ += list(it_)", "if got_ != src: return explain('iterator resumed after the list was advanced by an index', {a})"]),
    "iter_two": dict(pre=[], code=["i1_ = iter(ll); i2_ = iter(ll); g1_ = []; g2_ = []", "for _k in range(len(src)):", "    g1_.append(next(i1_)); g2_.append(next(i2_))", "if g1_ != src or g2_ != src or list(i1_) != [] : return explain('two iterators in lock step')"]),
    "has_ind": dict(pre=[], code=["if bool(ll.has_ind({a})) != (0 <= {a} < len(src)): return explain('has_ind', {a})"]),
    "listify": dict(pre=[], code=["if ll.listify() != src: return explain('listify')"]),
}
STEP_NAMES = {1: "p1", 2: "p2", 3: "p3", -1: "m1", -2: "m2"}
for _c, _n in STEP_NAMES.items():
    OPS["slice_" + _n] = dict(
        pre=[WIN.format(x="{a}"), WIN.format(x="{b}")],
        code=["n_ = pick(len(src), 0, 3); {a} = pick({a}, -(n_ + @W@), n_ + @W@); {b} = pick({b}, -(n_ + @W@), n_ + @W@)",
              "if list(ll[{a}:{b}:%d]) != src[{a}:{b}:%d]: return explain('slice', {a}, {b}, %d)" % (_c, _c, _c)],
    )
KINDS = list(OPS)
SLICE3 = ["slice_p1", "slice_p2", "slice_p3", "slice_m1", "slice_m2"]
BASIC = [k for k in KINDS if k not in SLICE3]
PARTNERS = ["idx", "neg", "len", "bool", "copy_idx"]
FUNCS = [
    "vyxal/LazyList.py: LazyList.__init__ __next__ __getitem__ __len__ __iter__ __bool__ __contains__ __eq__ count reversed has_ind listify",
    "vyxal/helpers.py: deep_copy vyxalify simplify",
]


def history_fn(name, hist, maxlen, excl, twin=False, win=2):
    params = ["src: List[int]"]
    pres = ["len(src) <= %d" % maxlen]
    body = ["src = list(src)", "ll = LazyList(iter(list(src)))"]
    for i, k in enumerate(hist):
        names = {x: "%s%d" % (x, i) for x in "abcL"}
        used = [x for x in "abcL" if any("{%s}" % x in s for s in OPS[k]["pre"] + OPS[k]["code"])]
        params += ["%s: %s" % (names[x], "List[int]" if x == "L" else "int") for x in used]
        pres += [p.format(**names) for p in OPS[k]["pre"]]
        body += [c.format(**names) for c in OPS[k]["code"]]
    body += ["if ll.listify() != src: return explain('final listify')"]
    body += ["return False" if twin else "return True"]
    pres += ["not (%s)" % e for e in excl]
    pres = [p.replace("@W@", str(win)) for p in pres]
    body = [p.replace("@W@", str(win)) for p in body]
    return fn_src(name, ", ".join(params), pres, body)


def build(tier, seed, known):
    plan = Plan(prop="C13")
    maxlen = 3
    quick3 = ["slice_p1", "slice_p2", "slice_m1"]
    hists = [(k,) for k in KINDS] + list(itertools.product(BASIC, repeat=2))
    partners = PARTNERS if tier == "quick" else PARTNERS + ["copy_late", "iter_interleaved", "reversed", "eq_list", "has_ind", "slice_to"]
    for sk in SLICE3 if tier == "thorough" else quick3:
        for k in partners:
            hists += [(sk, k), (k, sk)]
    if tier == "thorough":
        rnd = random.Random(seed)
        hists += [(a, b) for a in SLICE3 for b in SLICE3 if a <= b]
        hists += rnd.sample(list(itertools.product(BASIC, repeat=3)), 2500)
        hists += rnd.sample(list(itertools.product(KINDS, repeat=3)), 150)
        hists += rnd.sample(list(itertools.product(BASIC, repeat=4)), 300)
    hists = list(dict.fromkeys(hists))
    src = "from hlib.common import *\n\n"
    excl = known_exclusions(known, "history")
    for h in hists:
        name = "h_" + "_".join(h)
        nsl = sum(1 for k in h if k in SLICE3)
        win = 2 if len(h) == 1 else 1
        src += history_fn(name, h, maxlen, excl, win=win)
        plan.obs.append(
            Ob(oid=name, family="history", module="hist", fn=name, timeout=40 + 40 * len(h) + 60 * nsl + (120 if nsl + sum(1 for k in h if k == "slice_from") >= 2 else 0), desc="observation history " + " -> ".join(h) + " then listify, vs list model",
               bounds="source list len<=%d unbounded ints; index/needle params unbounded; slice start/stop within len+-%d, step concrete per kind" % (maxlen, win))
        )
    for h in [("idx",), ("slice_p1", "len"), ("bool", "neg")]:
        name = "twin_" + "_".join(h)
        src += history_fn(name, h, maxlen, excl, twin=True)
        plan.obs.append(Ob(oid=name, family="history", module="hist", fn=name, timeout=120, expect="refuted", desc="reachability twin (final assertion false)"))
    plan.modules["hist"] = src
    plan.batch = 6
    plan.functions_encoded = FUNCS
    plan.rule = (
        "skeleton = sequence of observation kinds (%d kinds; all histories of length 1, all pairs of the non-3-argument-slice kinds, 3-argument slices paired with a partner set%s); per skeleton the solver quantifies over the source list "
        "(length 0..%d, unbounded ints) and every operation parameter; oracle = the same observation on a python list (wrap-around i mod len for out-of-range "
        "non-negative single indexes, 0 when empty); after the history listify() must equal the source" % (len(KINDS), " (thorough: with eleven partners and with each other), seeded samples of 2 500 triples of the basic kinds, 150 triples over all kinds and 300 quadruples" if tier == "thorough" else "", maxlen)
    )
    plan.outside = ["source lists longer than 3", "histories longer than the bound", "slice bounds outside len+-2 (len+-1 inside longer histories) and steps outside -2..3 (range(lo,hi) makes the path count unbounded)",
                    "negative indexes below -len (a list raises there; the property is silent)", "ordering comparisons (not among the property's observations)", "non-integer items"]
    plan.assumptions = ["CrossHair's models of list/int/iter/itertools.tee are faithful to CPython", "items are python ints (vyxalify returns them unchanged)"]
    return plan
