"""C20 - every element is typeable in one byte per character and reachable (DESIGN.md C20)."""
import ast
import json
import os
import subprocess
import time

from vfw.core import Ob, Plan, fn_src, known_exclusions, PY, REPO, VERIF

PRE = '''from hlib.common import *
CP = ENC.codepage
ELEMENT_KEYS = list(E.elements.keys())
MODIFIER_KEYS = list(E.modifiers.keys()) + ["⁽", "‡", "≬"]
OPENERS = list(PARSE.STRUCTURE_INFORMATION.keys())
CLOSER = {k: v[1] for k, v in PARSE.STRUCTURE_INFORMATION.items()}
STRUCT_CLS = {k: v[0].__name__ for k, v in PARSE.STRUCTURE_INFORMATION.items()}
OTHER_SYNTAX = list(CLOSER.values()) + ["|", PARSE.BREAK_CHARACTER, PARSE.RECURSE_CHARACTER]
ALL_KEYS = list(dict.fromkeys(ELEMENT_KEYS + MODIFIER_KEYS + OPENERS + OTHER_SYNTAX))
MOD_ARITY = {}
for _m in PARSE.MONADIC_MODIFIERS: MOD_ARITY[_m] = 1
for _m in PARSE.DYADIC_MODIFIERS: MOD_ARITY[_m] = 2
for _m in PARSE.TRIADIC_MODIFIERS: MOD_ARITY[_m] = 3

'''

BODY = {
    "key_lex": ("ALL_KEYS", [
        "for c in s:",
        "    if c not in CP: return explain('character outside the code page')",
        "toks = tokenise(s)",
        "if len(toks) != 1: return explain('not exactly one token', len(toks))",
        "return toks[0].name == TokenType.GENERAL and toks[0].value == s",
    ]),
    "key_lex_followed": ("ALL_KEYS", [
        "for follower in ('+', '1', 'a'):",
        "    toks = tokenise(s + follower)",
        "    if len(toks) < 1 or toks[0].name != TokenType.GENERAL or toks[0].value != s: return explain('a following character changes how the key is scanned', follower)",
        "return True",
    ]),
    "elem_parse": ("ELEMENT_KEYS", [
        "tree = parse(tokenise(s))",
        "if len(tree) != 1 or type(tree[0]) is not STRUCT.GenericStatement: return explain('element key is shadowed by syntax')",
        "tok = tree[0].branches[0][0]",
        "return tok.name == TokenType.GENERAL and tok.value == s",
    ]),
    "mod_parse": ("MODIFIER_KEYS", [
        "tree = parse(tokenise(s + '+-*/'))",
        "if len(tree) < 1: return explain('modifier vanished')",
        "k = MOD_ARITY.get(s)",
        "if k is None: return explain('modifier key not known to the parser')",
        "if s in ('⁽', '‡', '≬'):",
        "    return type(tree[0]) is STRUCT.Lambda and len(tree[0].body) == k and len(tree) == 1 + (4 - k)",
        "want = {1: STRUCT.MonadicModifier, 2: STRUCT.DyadicModifier, 3: STRUCT.TriadicModifier}[k]",
        "return type(tree[0]) is want and tree[0].modifier == s and len(tree) == 1 + (4 - k)",
    ]),
    "struct_parse": ("OPENERS", [
        "tree = parse(tokenise(s + '2|+' + CLOSER[s] + '-'))",
        "if len(tree) != 2: return explain('structure not closed by its closer', len(tree))",
        "names = [c.__name__ for c in type(tree[0]).__mro__]",
        "return STRUCT_CLS[s] in names or (s == '@' and type(tree[0]) is STRUCT.FunctionDef)",
    ]),
}


def z3_tables(ctx):
    """Finite-domain solver queries: code page bijective, no duplicate keys in the table source, table arity vs documentation."""
    prog = r'''
import sys, json, ast, time, warnings
warnings.filterwarnings("ignore")
sys.path[:0] = [%r, %r]
import z3
from hlib.yamlite import read_elements
import vyxal.helpers, vyxal.elements as E, vyxal.encoding as ENC, vyxal.parse as P
out = {"queries": 0, "solver_s": 0.0, "violations": [], "notes": []}
def distinct_strings(vals):
    s = z3.Solver()
    s.add(z3.Distinct(*[z3.StringVal(v) for v in vals]))
    t = time.time(); r = str(s.check()); out["solver_s"] += time.time() - t; out["queries"] += 1
    return r
# 1. code page: 256 entries, pairwise distinct, byte <-> char maps are mutually inverse
cp = ENC.codepage
codes = [z3.IntVal(ord(c)) for c in cp]
s = z3.Solver(); s.add(z3.Distinct(*codes)); t = time.time(); r = str(s.check()); out["solver_s"] += time.time() - t; out["queries"] += 1
if len(cp) != 256 or r != "sat":
    dup = sorted({c for c in cp if cp.count(c) > 1})
    out["violations"].append(["codepage", "code page is not a bijection onto 256 distinct characters: len=%%d duplicates=%%r" %% (len(cp), dup)])
# symbolic byte b: index(codepage[b]) == b  (as a z3 array/function query over all 256 values)
b = z3.Int("b")
A = z3.Array("cpmap", z3.IntSort(), z3.IntSort())
s = z3.Solver()
for i, c in enumerate(cp):
    s.add(A[i] == ord(c))
i1, i2 = z3.Ints("i1 i2")
s.add(0 <= i1, i1 < len(cp), 0 <= i2, i2 < len(cp), i1 != i2, A[i1] == A[i2])
t = time.time(); r = str(s.check()); out["solver_s"] += time.time() - t; out["queries"] += 1
if r != "unsat":
    out["violations"].append(["codepage", "two byte values map to the same character: %%s" %% s.model()])
# 2. duplicate keys in the dict displays of elements / modifiers (source order)
src = open(E.__file__, encoding="utf-8").read()
tree = ast.parse(src)
for node in tree.body:
    tgt = None
    if isinstance(node, ast.AnnAssign) and isinstance(node.target, ast.Name): tgt = node.target.id
    if isinstance(node, ast.Assign) and len(node.targets) == 1 and isinstance(node.targets[0], ast.Name): tgt = node.targets[0].id
    if tgt in ("elements", "modifiers") and isinstance(node.value, ast.Dict):
        keys = [k.value for k in node.value.keys if isinstance(k, ast.Constant)]
        out["notes"].append("%%s: %%d keys in the dict display" %% (tgt, len(keys)))
        if distinct_strings(keys) != "sat":
            for d in sorted({k for k in keys if keys.count(k) > 1}):
                out["violations"].append(["dupkey:" + d, "key %%r appears %%d times in the %%s table: the earlier entry is unreachable" %% (d, keys.count(d), tgt)])
# 3. documented arity vs table arity
docs = read_elements(%r + "/documents/knowledge/elements.yaml")
syntax = set(P.STRUCTURE_INFORMATION) | set(P.CLOSING_CHARACTERS) | set("|") | {P.BREAK_CHARACTER, P.RECURSE_CHARACTER} | set("0123456789.°`‛«»\\#→←⁺ ") | set("k∆øÞ¨") | set(P.MONADIC_MODIFIERS + P.DYADIC_MODIFIERS + P.TRIADIC_MODIFIERS)
seen = {}
for d in docs:
    k = d["element"]
    if d["is_modifier"] or k in syntax:
        continue
    if k not in E.elements:
        out["notes"].append("documented but absent from the table: %%r" %% k)
        continue
    ar = (d["arity"] or "NA").strip()
    allowed = None
    if ar.isdigit(): allowed = [int(ar)]
    elif " or " in ar and all(x.strip().isdigit() for x in ar.split(" or ")): allowed = [int(x) for x in ar.split(" or ")]
    if allowed is None:
        continue  # NA, *, "1 + *": any arity
    seen.setdefault(k, []).append(allowed)
for k, alls in seen.items():
    t_ar = z3.IntVal(E.elements[k][1])
    s = z3.Solver()
    s.add(z3.Not(z3.Or(*[t_ar == a for allowed in alls for a in allowed])))
    t = time.time(); r = str(s.check()); out["solver_s"] += time.time() - t; out["queries"] += 1
    if r != "unsat":
        out["violations"].append(["arity:" + k, "element %%r: table arity %%d, documented %%r" %% (k, E.elements[k][1], alls)])
undoc = [k for k in E.elements if k not in {d["element"] for d in docs}]
if undoc: out["notes"].append("in the table but undocumented: %%r" %% undoc)
out["documented_keys_compared"] = len(seen)
print(json.dumps(out, ensure_ascii=False))
''' % (REPO, VERIF, REPO)
    p = subprocess.run([PY, "-c", prog], stdin=subprocess.DEVNULL, stdout=subprocess.PIPE, stderr=subprocess.PIPE, timeout=600)
    try:
        out = json.loads(p.stdout.decode().strip().splitlines()[-1])
    except Exception:
        return {"errors": ["z3 table queries crashed: " + p.stderr.decode()[-800:]]}
    known = ctx["known"]
    res = {"validated": 0, "notes": out["notes"], "violations": [], "coverage": {"z3_table_queries": out["queries"], "z3_table_solver_s": round(out["solver_s"], 3), "documented_keys_compared": out["documented_keys_compared"]}}
    for tag, what in out["violations"]:
        hit = [e for e in known if e.get("status") == "known" and tag in e.get("table_tags", [])]
        if hit:
            continue  # printed as KNOWN-FINDING by its demo
        replay = "import sys\nprint(%r)\nsys.exit(1)\n" % what
        res["violations"].append(("C20 table query: " + what, "# " + what + "\n" + REPLAY_TABLE % (REPO, VERIF, tag)))
    return res


REPLAY_TABLE = '''import sys, ast, warnings
warnings.filterwarnings("ignore")
sys.path[:0] = [%r, %r]
import vyxal.helpers, vyxal.elements as E, vyxal.encoding as ENC
tag = %r
if tag == "codepage":
    cp = ENC.codepage
    bad = len(cp) != 256 or len(set(cp)) != 256
elif tag.startswith("dupkey:"):
    src = open(E.__file__, encoding="utf-8").read()
    bad = src.count('    "' + tag[7:] + '": ') > 1
else:
    from hlib.yamlite import read_elements
    import os
    k = tag[6:]
    docs = [d for d in read_elements(os.path.join(os.path.dirname(os.path.dirname(E.__file__)), "documents/knowledge/elements.yaml")) if d["element"] == k and (d["arity"] or "").strip().isdigit()]
    bad = bool(docs) and all(int(d["arity"]) != E.elements[k][1] for d in docs)
print("reproduced" if bad else "not reproduced", tag)
sys.exit(1 if bad else 0)
'''


def build(tier, seed, known):
    plan = Plan(prop="C20")
    src = PRE
    for fam, (keyset, body) in BODY.items():
        excl = known_exclusions(known, fam)
        pres = ["any(s == k for k in %s)" % keyset] + ["not (%s)" % e for e in excl]
        src += fn_src(fam, "s: str", pres, body)
        plan.obs.append(Ob(fam, fam, "m", fam, 240, "confirmed", "every key of %s: %s" % (keyset, {"key_lex": "code-page characters only and exactly one GENERAL token", "key_lex_followed": "still scanned as that one token when another character follows (no key is swallowed by a digraph prefix)", "elem_parse": "parses to one GenericStatement (not shadowed by syntax)",
                           "mod_parse": "binds the documented number of following elements", "struct_parse": "opens its structure and is closed by its closer"}[fam]), "membership precondition over the live table (finite, exhaustive)"))
    src += fn_src("twin_key_lex", "s: str", ["any(s == k for k in ALL_KEYS)"], ["return len(tokenise(s)) == 1 and len(s) == 1"])
    plan.obs.append(Ob("twin_key_lex", "key_lex", "m", "twin_key_lex", 120, "refuted", "reachability twin (digraph keys have 2 characters)"))
    # byte round trips: length <= 1 fully symbolic; length 2 partitioned by the (concrete) first byte
    firsts = list(range(256)) if tier == "thorough" else [0, 10, 92, 96, 255]
    src += fn_src("bytes_roundtrip_len1", "b: List[int]", ["len(b) <= 1", "all(0 <= x <= 255 for x in b)"],
                  ["text = ENC.vyxal_to_utf8(b)", "back = ENC.utf8_to_vyxal(text)", "return len(back) == len(b) and all(ord(back[i]) == b[i] for i in range(len(b)))"])
    plan.obs.append(Ob("bytes_roundtrip_len1", "bytes", "m", "bytes_roundtrip_len1", 300, "confirmed", "utf8_to_vyxal(vyxal_to_utf8(b)) == b", "all byte strings of length <= 1"))
    src += fn_src("text_roundtrip_len1", "s: str", ["len(s) <= 1", "all(c in CP for c in s)"],
                  ["by = ENC.utf8_to_vyxal(s)", "return ENC.vyxal_to_utf8([ord(c) for c in by]) == s"])
    plan.obs.append(Ob("text_roundtrip_len1", "bytes", "m", "text_roundtrip_len1", 300, "confirmed", "vyxal_to_utf8(utf8_to_vyxal(s)) == s", "all code-page strings of length <= 1"))
    for f in firsts:
        nm = "bytes_roundtrip_len2_first%d" % f
        src += fn_src(nm, "x: int", ["0 <= x <= 255"],
                      ["b = [%d, x]" % f, "text = ENC.vyxal_to_utf8(b)", "back = ENC.utf8_to_vyxal(text)", "if ENC.vyxal_to_utf8([ord(c) for c in back]) != text: return explain('text round trip')",
                       "return len(back) == 2 and ord(back[0]) == %d and ord(back[1]) == x" % f])
        plan.obs.append(Ob(nm, "bytes", "m", nm, 300, "confirmed", "both round trips on the byte string [%d, x]" % f, "second byte symbolic over 0..255; first byte %s" % ("every value (one obligation each)" if tier == "thorough" else "in {0,10,92,96,255}")))
    plan.modules["m"] = src
    plan.post_steps.append(lambda ctx: z3_tables(dict(ctx, known=known)))
    plan.functions_encoded = ["vyxal/encoding.py: codepage vyxal_to_utf8 utf8_to_vyxal", "vyxal/lexer.py: tokenise", "vyxal/parse.py: parse STRUCTURE_INFORMATION *_MODIFIERS", "vyxal/elements.py: elements / modifiers dict displays (AST), arity column",
                              "documents/knowledge/elements.yaml: arity entries"]
    plan.rule = "finite configuration: CrossHair with a membership precondition over every live table key (the lexer's and parser's own comparisons partition the key set); z3 Distinct / equality queries over the code page, the source-order keys of the dict displays and the documented arities"
    plan.assumptions = ["documented arities NA, *, '1 + *' allow any table arity; 'a or b' allows both", "yaml entries for syntax characters, digits and digraph prefixes are not elements"]
    plan.outside = ["byte strings longer than 2 (the maps are per character)"] + ([] if tier == "thorough" else ["length-2 byte strings whose first byte is not one of 0, 10, 92, 96, 255 (thorough tier: all)"])
    plan.inconclusive_ceiling = 0.34
    return plan
