"""C11 - input is a cyclic stream shared by explicit and implicit reads (DESIGN.md C11)."""
from vfw.core import Ob, Plan, fn_src, known_exclusions

PRE = '''from hlib.common import *
Q_TEMPLATE = E.elements["?"][0]

def I(inputs, k):
    return inputs[k % len(inputs)] if len(inputs) else 0

def cyc_ok(vals, args):
    """vals are successive implicit reads of one call: they cycle over args (either direction is accepted:
    the property fixes no order)"""
    m = len(args)
    fwd = all(vals[j] == args[j % m] for j in range(len(vals)))
    rev = all(vals[j] == args[m - 1 - (j % m)] for j in range(len(vals)))
    return fwd or rev

def run_logged(code, inputs):
    ctx = Context()
    ctx.inputs[0][0] = list(inputs)
    stack = []
    ctx.stacks.append(stack)
    ns = fresh_ns(ctx, stack)
    with InputLog() as il:
        ns["get_input"] = il.wrapper
        exec(code, ns)
    return il.log, ctx, stack

'''

# program, expected log as python expression over `inputs`; entries ('T', value) for top-level/explicit reads in order,
# ('S', depth, [call args], count) for a run of implicit reads inside one call scope.
PROGRAMS = [
    ("p_top3", "???", "[('T', I(inputs,0)), ('T', I(inputs,1)), ('T', I(inputs,2))]"),
    ("p_mixed", '"??"_"', "[('T', I(inputs,k)) for k in range(5)]"),
    ("p_dyad_then_explicit", "+?", "[('T', I(inputs,0)), ('T', I(inputs,1)), ('T', I(inputs,2))]"),
    ("p_partial_fill", '?""?', "[('T', I(inputs,k)) for k in range(4)]"),
    ("p_lam1", '?λ_"?;†?', "[('T', I(inputs,0)), ('S', 2, [I(inputs,0)], 2), ('T', I(inputs,1)), ('T', I(inputs,2))]"),
    ("p_lam2", '??λ2|__"";†', "[('T', I(inputs,0)), ('T', I(inputs,1)), ('S', 2, [I(inputs,0), I(inputs,1)], 3)]"),
    ("p_lam2_implicit_args", 'λ2|__"";†?', "[('T', I(inputs,0)), ('T', I(inputs,1)), ('S', 2, [I(inputs,0), I(inputs,1)], 3), ('T', I(inputs,2))]"),
    ("p_fn2", '@f:2|__"?;??@f;?', "[('T', I(inputs,0)), ('T', I(inputs,1)), ('S', 2, [I(inputs,0), I(inputs,1)], 2), ('T', I(inputs,2)), ('T', I(inputs,3))]"),
    ("p_lam_empty_result", '?λ_;†?', "[('T', I(inputs,0)), ('S', 2, [I(inputs,0)], 1), ('T', I(inputs,1))]"),
    ("p_lam2_empty_result", '??λ2|__;†?', "[('T', I(inputs,0)), ('T', I(inputs,1)), ('S', 2, [I(inputs,0), I(inputs,1)], 1), ('T', I(inputs,2))]"),
    ("p_nested_lam_empty_result", '??λ2|__λ_;†";†', "[('T', I(inputs,0)), ('T', I(inputs,1)), ('S', 2, [I(inputs,0), I(inputs,1)], 1), ('S', 3, None, 1), ('S', 2, [I(inputs,0), I(inputs,1)], 1)]"),
    ("p_lam_explicit_only", "???λ0|??;†?", "[('T', I(inputs,k)) for k in range(6)]"),
    ("p_loop_reads", '2(?_)"', "[('T', I(inputs,k)) for k in range(4)]"),
    ("p_list_items", '⟨"|?⟩?', "[('T', I(inputs,k)) for k in range(4)]"),
    ("p_if_reads", "[?|?]?", "[('T', I(inputs,0)), ('T', I(inputs,1)), ('T', I(inputs,2))]"),
    ("p_while_reads", "{?_}?", None),
]


def prog_fn(name, prog, expected, excl, twin=False):
    body = [
        "log, ctx, stack = run_logged(CODE_%s, inputs)" % name,
        "exp = %s" % expected,
        "pos = 0",
        "for e in exp:",
        "    if e[0] == 'T':",
        "        if pos >= len(log) or log[pos][0] != 'T' or log[pos][2] != e[1]: return explain('top read', pos, e)",
        "        pos += 1",
        "    else:",
        "        vals = []",
        "        for _ in range(e[3]):",
        "            if pos >= len(log) or log[pos][0] != 'S' or log[pos][1] != e[1]: return explain('scope read', pos, e)",
        "            vals.append(log[pos][2]); pos += 1",
        "        if e[2] is not None and not cyc_ok(vals, e[2]): return explain('scope cycle', vals, e[2])",
        "if pos != len(log): return explain('extra reads', pos, len(log))",
        "if len(ctx.inputs) != 1: return explain('scope depth', len(ctx.inputs))",
        "ntop = sum(1 for e in exp if e[0] == 'T')",
        "if ctx.inputs[0][1] != (ntop if len(inputs) else 0): return explain('cursor', ctx.inputs[0][1], ntop)",
        "return %s" % ("False" if twin else "True"),
    ]
    pres = ["len(inputs) <= 4"] + ["not (%s)" % e for e in excl]
    return fn_src(name, "inputs: List[int]", pres, body)


def build(tier, seed, known):
    plan = Plan(prop="C11")
    src = PRE
    ex_step = known_exclusions(known, "step")
    # ---- one-step lemma at top level: arbitrary cursor, arbitrary stack fill, one pop of arity k ----
    for k in (1, 2, 3):
        for twin in (False, True) if k == 2 else (False,):
            name = ("twin_" if twin else "") + "step_pop%d" % k
            body = [
                "ctx = Context(); ctx.inputs[0][0] = list(inputs); ctx.inputs[0][1] = cursor",
                "stack = list(st); m = len(st); n = len(inputs)",
                "got = H.pop(stack, %d, ctx)" % k,
                "got = [got] if %d == 1 else got" % k,
                "exp = []",
                "for j in range(%d):" % k,
                "    if j < m: exp.append(st[m - 1 - j])",
                "    else: exp.append(inputs[(cursor + (j - m)) % n] if n else 0)",
                "if got != exp: return explain('delivered', got, exp)",
                "if stack != list(st[: max(0, m - %d)]): return explain('stack rest')" % k,
                "reads = max(0, %d - m)" % k,
                "if ctx.inputs[0][1] != (cursor + reads if n else cursor): return explain('cursor', ctx.inputs[0][1])",
                "if len(ctx.inputs) != 1 or ctx.use_top_input: return explain('scope state')",
                "return %s" % ("False" if twin else "True"),
            ]
            src += fn_src(name, "inputs: List[int], cursor: int, st: List[int]", ["len(inputs) <= 4", "cursor >= 0", "len(st) <= 3"] + ["not (%s)" % e for e in ex_step], body)
            plan.obs.append(Ob(name, "step", "m", name, 90, "refuted" if twin else "confirmed", "one pop of arity %d from an arbitrary top-level state (inputs, cursor, stack fill)" % k,
                               "inputs len<=4 (unbounded ints), cursor>=0 unbounded, stack len<=3"))
    # explicit read template from an arbitrary state
    body = [
        "ctx = Context(); ctx.inputs[0][0] = list(inputs); ctx.inputs[0][1] = cursor",
        "stack = list(st); n = len(inputs)",
        "ns = fresh_ns(ctx, stack)",
        "exec(Q_TEMPLATE, ns)",
        "if len(stack) != len(st) + 1 or stack[:-1] != list(st): return explain('stack')",
        "if stack[-1] != (inputs[cursor % n] if n else 0): return explain('value')",
        "if ctx.inputs[0][1] != (cursor + 1 if n else cursor): return explain('cursor')",
        "return not ctx.use_top_input and len(ctx.inputs) == 1",
    ]
    src += fn_src("step_explicit", "inputs: List[int], cursor: int, st: List[int]", ["len(inputs) <= 4", "cursor >= 0", "len(st) <= 2"], body)
    plan.obs.append(Ob("step_explicit", "step", "m", "step_explicit", 90, "confirmed", "the `?` element template from an arbitrary top-level state", "inputs len<=4, cursor unbounded, stack len<=2"))
    # ---- one step inside a call scope: implicit reads use the scope, explicit reads the program inputs ----
    for k in (1, 2, 3):
        name = "scope_pop%d" % k
        body = [
            "ctx = Context(); ctx.inputs[0][0] = list(inputs); ctx.inputs[0][1] = c0",
            "ctx.inputs.append([list(args), c1])",
            "stack = []; n = len(inputs); m = len(args)",
            "got = H.pop(stack, %d, ctx)" % k,
            "got = [got] if %d == 1 else got" % k,
            "if got != [args[(c1 + j) %% m] for j in range(%d)]: return explain('delivered', got)" % k,
            "if ctx.inputs[1][1] != c1 + %d or ctx.inputs[0][1] != c0: return explain('cursors')" % k,
            "ns = fresh_ns(ctx, stack)",
            "exec(Q_TEMPLATE, ns)",
            "if stack != [inputs[c0 % n] if n else 0]: return explain('explicit inside scope', stack)",
            "if ctx.inputs[0][1] != (c0 + 1 if n else c0) or ctx.inputs[1][1] != c1 + %d: return explain('cursors after ?')" % k,
            "return len(ctx.inputs) == 2 and not ctx.use_top_input",
        ]
        src += fn_src(name, "inputs: List[int], c0: int, args: List[int], c1: int", ["len(inputs) <= 3", "c0 >= 0", "1 <= len(args) <= 3", "c1 >= 0"], body)
        plan.obs.append(Ob(name, "scope", "m", name, 120, "confirmed", "inside a call scope: pop of arity %d cycles over the scope's arguments, then `?` takes the program input" % k,
                           "inputs len<=3, args len 1..3, both cursors unbounded"))
    # ---- integration programs ----
    ex_prog = known_exclusions(known, "prog")
    for name, prog, expected in PROGRAMS:
        if expected is None:
            continue
        src += "CODE_%s = T.transpile(%r)\n" % (name, prog)
        src += prog_fn(name, prog, expected, ex_prog)
        plan.obs.append(Ob(name, "prog", "m", name, 120, "confirmed", "program %s: sequence of delivered reads vs. cyclic-stream oracle; cursor and scope depth afterwards" % prog, "inputs len 0..4, unbounded ints"))
    # generated programs (C01's seeded derivations): the sequence of delivered reads (kind, scope depth, value) logged at the real
    # get_input equals the read log of the reference interpreter, which implements Input.md directly
    try:
        from props.c01 import prepare
        gen = [P for P in prepare(tier, seed)["keep"] if "?" in P][: (60 if tier == "quick" else 600)]
    except Exception:  # noqa
        gen = []
    if gen:
        src += """from hlib.refsem import Ref, Fuse

def reads_agree(code, tree, inputs):
    ctx = Context()
    ctx.inputs[0][0] = list(inputs)
    stack = []
    ctx.stacks.append(stack)
    ns = fresh_ns(ctx, stack)
    rexc = oexc = None
    with InputLog() as il:
        ns["get_input"] = il.wrapper
        try:
            exec(code, ns)
        except Exception as e:
            rexc = type(e).__name__
    ref = Ref(list(inputs))
    try:
        ref.run(tree, ref.stack, None)
    except Fuse:
        return note('reference fuse')
    except Exception as e:
        oexc = type(e).__name__
    if rexc is not None or oexc is not None:
        return note('program rejects these inputs', rexc, oexc)
    real = [(k, v) for k, d, v in il.log]
    want = [(k, v) for k, d, v in ref.readlog]
    if real != want:
        return explain('sequence of delivered reads differs from the cyclic-stream reference')
    if len(ctx.inputs) != 1:
        return explain('scope depth')
    return path_ok()

"""
    for gi, P in enumerate(gen):
        name = "gr%04d" % gi
        src += "GCODE_%s = T.transpile(%r)\nGTREE_%s = parse(tokenise(%r))\n" % (name, P, name, P)
        src += fn_src(name, "inputs: List[int]", ["len(inputs) <= 3", "all(-1 <= x <= 3 for x in inputs)"], ["return reads_agree(GCODE_%s, GTREE_%s, inputs)" % (name, name)])
        plan.obs.append(Ob(name, "generated", "m", name, 120, "confirmed", "generated program %s: every value delivered by an explicit or implicit read, in order, equals the reference interpreter's read log" % P, "0..3 inputs in -1..3"))
    src += prog_fn("twin_p_lam1", '?λ_"?;†?', PROGRAMS[4][2], ex_prog, twin=True).replace("CODE_twin_p_lam1", "CODE_p_lam1")
    plan.obs.append(Ob("twin_p_lam1", "prog", "m", "twin_p_lam1", 120, "refuted", "reachability twin"))
    plan.modules["m"] = src
    plan.require_ok_marker = {"generated"}
    plan.functions_encoded = ["vyxal/helpers.py: pop get_input wrapify deep_copy", "vyxal/elements.py: template of `?`, templates of \" _ + ‟ Ŀ † and the lambda/function call protocol (function_call, safe_apply)",
                              "vyxal/transpile.py: transpile (run concretely, its output text is exec'ed symbolically): lambda, function, for, while, if, list templates"]
    plan.rule = ("one-step lemmas from an arbitrary state (inputs, unbounded cursor, stack fill) for pops of arity 1-3 and the `?` template, at top level and inside a call scope; "
                 "plus whole programs mixing explicit/implicit reads in nested scopes, every delivered value logged at get_input and compared with inputs[k mod n]")
    plan.assumptions = ["STDIN absent: builtins.input is stubbed to raise EOFError (Input.md: then every read is 0)", "reverse_flag and retain_popped off",
                        "implicit reads inside a call may cycle over the arguments in either direction (the property fixes none)"]
    plan.outside = ["inputs longer than 4", "non-integer inputs", "zero-argument scopes (the tree yields 0; the property is silent)", "flags r/retain", "programs beyond the listed integration set"]
    return plan
