"""C08 - vectorising elements act element-wise (DESIGN.md C08)."""
import json
import os
import re
import subprocess

from vfw.core import Ob, Plan, fn_src, known_exclusions, PY, REPO, VERIF

PRE = '''from hlib.common import *

def is_list(x):
    return isinstance(x, (list, LazyList))

def model(args):
    """element-wise with zero fill, recursively; scalars produce the spy tag"""
    if not any(is_list(a) for a in args):
        return ["spy"] + list(args)
    n = max(len(a) for a in args if is_list(a))
    return [model([(a[i] if i < len(a) else 0) if is_list(a) else a for a in args]) for i in range(n)]

def mkspy(name, arity, real):
    if arity == 1:
        def spy(lhs, ctx=None):
            return ["spy", lhs] if not is_list(lhs) else real(lhs, ctx=ctx)
    elif arity == 2:
        def spy(lhs, rhs, ctx=None):
            return ["spy", lhs, rhs] if not (is_list(lhs) or is_list(rhs)) else real(lhs, rhs, ctx=ctx)
    else:
        def spy(lhs, rhs, other, ctx=None):
            return ["spy", lhs, rhs, other] if not (is_list(lhs) or is_list(rhs) or is_list(other)) else real(lhs, rhs, other, ctx=ctx)
    spy.__name__ = name
    return spy

def lz(x, lazy):
    """eager or lazy form of a (possibly nested) list argument"""
    if not isinstance(x, list):
        return x
    inner = [lz(y, lazy) for y in x]
    return LazyList(iter(inner)) if lazy else inner

def elementwise(fn_name, arity, args, lazy):
    real = getattr(E, fn_name)
    spy = mkspy(fn_name, arity, real)
    setattr(E, fn_name, spy)
    try:
        ctx = Context()
        got = force(spy(*[lz(a, lazy) for a in args], ctx=ctx))
    finally:
        setattr(E, fn_name, real)
    want = model(args)
    if got != want:
        return explain('not element-wise', fn_name)
    return True

def elementwise_template(key, fn_name, arity_fn, args, lazy, want_args):
    """for hand-written templates: exec the template, the called function is the spy"""
    real = getattr(E, fn_name)
    spy = mkspy(fn_name, arity_fn, real)
    ctx = Context()
    stack = [lz(a, lazy) for a in args]
    ctx.stacks.append(stack)
    ns = fresh_ns(ctx, stack)
    ns[fn_name] = spy
    setattr(E, fn_name, spy)
    try:
        exec(E.elements[key][0], ns)
        got = force(stack[-1])
    finally:
        setattr(E, fn_name, real)
    return got == model(want_args) or explain('template not element-wise', key)

'''

SHAPES1 = {  # monads: params, pres, args expr
    "list": ("a: List[int]", ["len(a) <= @N@"], "[a]"),
    "nested": ("x: List[int], y: List[int]", ["len(x) <= 2", "len(y) <= 2"], "[[x, y]]"),
    "nested_mixed": ("x: List[int], s: int, y: List[int]", ["len(x) <= 2", "len(y) <= 2"], "[[x, s, y]]"),
    "deep": ("x: List[int], s: int", ["len(x) <= 2"], "[[[x, s], x]]"),
}
SHAPES2 = {
    "list_scalar": ("a: List[int], s: int", ["len(a) <= @N@"], "[a, s]"),
    "scalar_list": ("s: int, a: List[int]", ["len(a) <= @N@"], "[s, a]"),
    "list_list": ("a: List[int], b: List[int]", ["len(a) <= @N@", "len(b) <= @N@"], "[a, b]"),
    "nested_scalar": ("x: List[int], y: List[int], s: int", ["len(x) <= 2", "len(y) <= 2"], "[[x, y], s]"),
    "nested_list": ("x: List[int], t: int, b: List[int]", ["len(x) <= 2", "len(b) <= 3"], "[[x, t], b]"),
    "list_str": ("a: List[int], s: str", ["len(a) <= @N@", "len(s) <= 2"], "[a, s]"),
    "deep_scalar": ("x: List[int], t: int, s: int", ["len(x) <= 2"], "[[[x, t]], s]"),
}
SHAPES3 = {
    "list_s_s": ("a: List[int], s: int, t: int", ["len(a) <= @N@"], "[a, s, t]"),
    "s_list_s": ("s: int, a: List[int], t: int", ["len(a) <= @N@"], "[s, a, t]"),
    "s_s_list": ("s: int, t: int, a: List[int]", ["len(a) <= @N@"], "[s, t, a]"),
}
QUICK = {1: ["list", "nested"], 2: ["list_scalar", "scalar_list", "list_list", "nested_scalar", "nested_list"], 3: ["list_s_s", "s_list_s", "s_s_list"]}


def live_table():
    prog = r'''
import sys, json, re, warnings
warnings.filterwarnings("ignore")
sys.path[:0] = [%r]
import vyxal.helpers, vyxal.elements as E
out = {}
for k, (t, a) in E.elements.items():
    m = re.fullmatch(r"(?:(?:third, )?(?:rhs, )?lhs|_) = pop\(stack, \d, ctx\); stack\.append\((\w+)\((?:lhs(?:, rhs)?(?:, third)?|)(?:, )?ctx=ctx\)\)", t)
    out[k] = {"arity": a, "fn": m.group(1) if m else None, "template": t}
print(json.dumps(out))
''' % (REPO,)
    p = subprocess.run([PY, "-c", prog], stdin=subprocess.DEVNULL, stdout=subprocess.PIPE, stderr=subprocess.PIPE, timeout=300)
    return json.loads(p.stdout.decode().strip().splitlines()[-1])


def ident(key):
    return "_".join("%x" % ord(c) for c in key)


def build(tier, seed, known):
    plan = Plan(prop="C08")
    frozen = json.load(open(os.path.join(VERIF, "c08_elements.json")))
    table = live_table()
    n = 3 if tier == "quick" else 4
    src = PRE
    missing = []
    for key in frozen["claimed"]:
        info = table.get(key)
        if info is None:
            missing.append("%s: no longer in the element table" % key)
            continue
        k = info["arity"]
        shapes = {1: SHAPES1, 2: SHAPES2, 3: SHAPES3}[k]
        names = QUICK[k] if tier == "quick" else list(shapes)
        for sh in names:
            params, pres, argexpr = shapes[sh]
            for lazy in (False, True):
                name = "v_%s_%s_%s" % (ident(key), sh, "lazy" if lazy else "eager")
                fam = "elementwise:" + key
                pp = [p.replace("@N@", str(n)) for p in pres] + ["not (%s)" % e for e in known_exclusions(known, fam)]
                if key == "d":
                    if k != 1 or "multiply(lhs, 2, ctx)" not in info["template"]:
                        missing.append("d: template no longer calls multiply(lhs, 2, ctx): not interceptable")
                        continue
                    body = ["args = %s" % argexpr, "return elementwise_template('d', 'multiply', 2, args, %r, args + [2])" % lazy]
                elif info["fn"] is None:
                    missing.append("%s: template is no longer a plain function call: not interceptable" % key)
                    continue
                else:
                    body = ["return elementwise(%r, %d, %s, %r)" % (info["fn"], k, argexpr, lazy)]
                src += fn_src(name, params, pp, body)
                plan.obs.append(Ob(name, fam, "m", name, 90, "confirmed", "element %s (%s), shape %s, %s lists: forced result == position-by-position spy results with 0 fill, recursively" % (key, info["fn"] or "template", sh, "lazy" if lazy else "eager"),
                                   "flat lists len<=%d, inner lists len<=2, unbounded ints" % n))
    src += fn_src("twin_add", "a: List[int], b: List[int]", ["len(a) <= 3", "len(b) <= 3"], ["return elementwise('add', 2, [a, b], False) and len(a) == len(b)"])
    plan.obs.append(Ob("twin_add", "elementwise:+", "m", "twin_add", 90, "refuted", "reachability twin"))
    plan.modules["m"] = src
    plan.functions_encoded = ["vyxal/elements.py: the list fallback of every claimed element function (.get(ts, lambda: vectorise(...))), vectorise, vy_zip, vy_type", "vyxal/helpers.py: safe_apply primitive_type iterable vyxalify", "vyxal/LazyList.py"]
    plan.rule = ("skeleton = (element, shape, eager|lazy) for the %d frozen element-wise elements (c08_elements.json) of the %d documented vectorise:true entries; the solver quantifies over list lengths "
                 "(unequal allowed) and contents; scalar applications are intercepted by a spy returning ['spy', args...], everything between the element's entry and the scalar call runs for real" % (len(frozen["claimed"]), len(frozen["claimed"]) + len(frozen["excluded"])))
    plan.assumptions = ["spy scalars: the element's module global is replaced by a spy that tags all-scalar calls and delegates otherwise, so scalar overloads (C07/C16/C17's subject) are never entered",
                        "excluded documented vectorise:true entries (outside the frozen set): " + "; ".join("%s (%s)" % (k, v[:60]) for k, v in frozen["excluded"].items())]
    plan.outside = ["correctness of the scalar overloads", "lists longer than %d, nesting deeper than 3" % n, "rational and string items inside lists (strings only as the scalar operand in the thorough tier)"] + missing
    if missing:
        plan.post_steps.append(lambda ctx: {"notes": ["inconclusive (frozen element no longer interceptable): " + m for m in missing]})
    plan.extra_coverage = {"elements_claimed": len(frozen["claimed"])}
    return plan
