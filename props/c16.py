"""C16 - list builtins obey their defining laws (DESIGN.md C16)."""
from vfw.core import Ob, Plan, fn_src, known_exclusions

PRE = '''from hlib.common import *
import itertools, functools, operator
from vyxal.elements import *

def F(x):
    return force(x)

def first_occ(a):
    o = []
    for x in a:
        if x not in o:
            o.append(x)
    return o

def is_perm(xs, ys):
    ys = list(ys)
    if len(xs) != len(ys):
        return False
    for x in xs:
        if x not in ys:
            return False
        ys.remove(x)
    return True

def ordered(xs):
    return all(xs[i] <= xs[i + 1] for i in range(len(xs) - 1))

def groups(a):
    out = []
    for x in a:
        if out and out[-1][0] == x:
            out[-1].append(x)
        else:
            out.append([x])
    return out

def stable_grade(a, rev=False):
    idx = list(range(len(a)))
    out = []
    for i in idx:
        j = len(out)
        while j > 0 and ((a[out[j - 1]] > a[i]) if not rev else (a[out[j - 1]] < a[i])):
            j -= 1
        out.insert(j, i)
    return out

def C():
    return Context()

'''

# name -> (params, pres, body expression returning bool); `a` is List[int]
A = "a: List[int]"
AB = "a: List[int], b: List[int]"
AV = "a: List[int], v: int"
LAWS = {
    "sort_ordered_perm": (A, [], "(lambda r: ordered(r) and is_perm(r, a))(F(vy_sort(list(a), C())))"),
    "reverse": (A, [], "F(reverse(list(a), C())) == a[::-1]"),
    "reverse_involution": (A, [], "F(reverse(reverse(list(a), C()), C())) == a"),
    "uniquify_first_occurrences": (A, [], "F(uniquify(list(a), C())) == first_occ(a)"),
    "sum_fold": (A, [], "vy_sum(list(a), C()) == sum(a)"),
    "product_fold": (A, ["len(a) <= 3"], "product(list(a), C()) == (functools.reduce(operator.mul, a, 1) if a else 0)"),
    "max_fold": (A, [], "(monadic_maximum(list(a), C()) == max(a)) if a else F(monadic_maximum(list(a), C())) == []"),
    "min_fold": (A, [], "(monadic_minimum(list(a), C()) == min(a)) if a else F(monadic_minimum(list(a), C())) == []"),
    "cumulative_sum": (A, ["len(a) >= 1"], "F(cumulative_sum(list(a), C())) == list(itertools.accumulate(a))"),
    "deltas": (A, [], "F(deltas(list(a), C())) == [a[i + 1] - a[i] for i in range(len(a) - 1)]"),
    "deltas_of_cumsum": (A, ["len(a) >= 1"], "F(deltas(F(cumulative_sum(list(a), C())), C())) == a[1:]"),
    "prefixes": (A, [], "F(prefixes(list(a), C())) == [a[: i + 1] for i in range(len(a))]"),
    "suffixes": (A, [], "F(suffixes(list(a), C())) == [a[i:] for i in range(len(a))]"),
    "sublists": (A, [], "is_perm(F(sublists(list(a), C())), [a[i:j] for i in range(len(a)) for j in range(i + 1, len(a) + 1)])"),
    "powerset": (A, ["len(a) <= 3"], "is_perm(F(powerset(list(a), C())), [list(c) for r in range(len(a) + 1) for c in itertools.combinations(a, r)])"),
    "permutations": (A, ["len(a) <= 3"], "F(permutations(list(a), C())) == [list(p) for p in itertools.permutations(a)]"),
    "counts": (A, [], "F(counts(list(a), C())) == [[x, a.count(x)] for x in first_occ(a)]"),
    "group_consecutive": (A, [], "F(group_consecutive(list(a), C())) == groups(a)"),
    "grade_up": (A, [], "F(grade_up(list(a), C())) == stable_grade(a)"),
    "grade_down": (A, [], "F(grade_down(list(a), C())) == stable_grade(a, True)"),
    "wrap_chunks": (A, [], "F(wrap(list(a), 2, C())) == [a[i : i + 2] for i in range(0, len(a), 2)]"),
    "flatten_of_wrap": (A, [], "F(deep_flatten(wrap(list(a), 2, C()), C())) == a"),
    "flatten_nested": (AB, [], "F(deep_flatten([list(a), [list(b), [list(a)]]], C())) == a + b + a"),
    "head_tail": (A, [], "(head(list(a), C()) == a[0] and tail(list(a), C()) == a[-1]) if a else (head(list(a), C()) == 0 and tail(list(a), C()) == 0)"),
    "uninterleave": (A, [], "F(uninterleave(list(a), C())) == [a[::2], a[1::2]]"),
    "interleave_inverse": (A, [], "F(interleave(a[::2], a[1::2], C())) == a"),
    "interleave_two": (AB, ["len(a) == len(b)"], "F(interleave(list(a), list(b), C())) == [x for p in zip(a, b) for x in p]"),
    "zip_pairs": (AB, [], "F(vy_zip(list(a), list(b), C())) == [[a[i] if i < len(a) else 0, b[i] if i < len(b) else 0] for i in range(max(len(a), len(b)))]"),
    "transpose_rect": (AB, ["len(a) == len(b)"], "F(transpose([list(a), list(b)], ctx=C())) == [[x, y] for x, y in zip(a, b)]"),
    "transpose_involution": (AB, ["len(a) == len(b)", "len(a) >= 1"], "F(transpose(F(transpose([list(a), list(b)], ctx=C())), ctx=C())) == [a, b]"),
    "contains": (AV, [], "contains(list(a), v, C()) == int(v in a)"),
    "count_item": (AV, [], "count_item(list(a), v, C()) == a.count(v)"),
    "find": (AV, [], "find(list(a), v, C()) == (a.index(v) if v in a else -1)"),
    "remove_all": (AV, [], "F(remove(list(a), v, C())) == [x for x in a if x != v]"),
    "length": (A, [], "length(list(a), C()) == len(a)"),
    "all_equal": (A, [], "all_equal(list(a), C()) == int(all(x == a[0] for x in a))"),
    "cartesian_product": (AB, ["len(a) <= 3", "len(b) <= 2"], "F(cartesian_product(list(a), list(b), C())) == [[x, y] for x in a for y in b]"),
    "merge_concat": (AB, [], "F(merge(list(a), list(b), C())) == a + b"),
    "truthy_indices": (A, [], "F(truthy_indices(list(a), C())) == [i for i, x in enumerate(a) if x != 0]"),
    "any_all": (A, [], "any_true(list(a), C()) == int(any(x != 0 for x in a)) and all_true(list(a), C()) == int(all(x != 0 for x in a))"),
    "vectorised_sum": (AB, [], "F(vectorised_sum([list(a), list(b)], C())) == [sum(a), sum(b)]"),
    "union": (AB, [], "F(union(list(a), list(b), C())) == first_occ(a + b)"),
    "palindromise": (A, [], "F(palindromise(list(a), C())) == a + a[:-1][::-1]"),
    "head_remove": (A, [], "F(head_remove(list(a), C())) == a[1:]"),
    "tail_remove": (A, [], "F(tail_remove(list(a), C())) == a[:-1]"),
    "prepend": (AV, [], "F(prepend(list(a), v, C())) == [v] + a"),
    "enumerate": (A, [], "F(vy_enumerate(list(a), C())) == [[i, x] for i, x in enumerate(a)]"),
    "sort_lazy_input": (A, [], "F(vy_sort(LazyList(iter(list(a))), C())) == sorted(a)"),
    "uniquify_lazy_input": (A, [], "F(uniquify(LazyList(iter(list(a))), C())) == first_occ(a)"),
    "reverse_lazy_input": (A, [], "F(reverse(LazyList(iter(list(a))), C())) == a[::-1]"),
    "dyadic_max_min": ("x: int, y: int", [], "dyadic_maximum(x, y, C()) == max(x, y) and dyadic_minimum(x, y, C()) == min(x, y)"),
}


NO_LAZY = set()


def build(tier, seed, known):
    plan = Plan(prop="C16")
    n = 3 if tier == "quick" else 4
    src = PRE
    for lname, (params, pres, expr) in LAWS.items():
        fam = "law:" + lname
        pp = []
        if "a:" in params and not any(p.startswith("len(a) <=") for p in pres):
            pp.append("len(a) <= %d" % n)
        if "b:" in params and not any(p.startswith("len(b) <=") for p in pres):
            pp.append("len(b) <= %d" % n)
        pp += pres + ["not (%s)" % e for e in known_exclusions(known, fam)]
        src += fn_src("law_" + lname, params, pp, ["a = list(a)" if "a:" in params else "pass", "b = list(b)" if "b:" in params else "pass", "return (%s) or explain(%r)" % (expr, lname)])
        plan.obs.append(Ob("law_" + lname, fam, "m", "law_" + lname, 150 if tier == "quick" else 600, "confirmed", "law %s: %s" % (lname, expr[:160]), "integer lists len<=%d (as stated per law), unbounded ints" % n))
    # the same laws with the list arguments given lazily (the builtins accept LazyLists wherever they accept lists)
    for lname, (params, pres, expr) in LAWS.items():
        if lname in NO_LAZY or "list(a)" not in expr or "lazy_input" in lname:
            continue
        lz = expr.replace("list(a)", "LazyList(iter(list(a)))").replace("list(b)", "LazyList(iter(list(b)))")
        pp = []
        if "a:" in params and not any(p.startswith("len(a) <=") for p in pres):
            pp.append("len(a) <= %d" % n)
        if "b:" in params and not any(p.startswith("len(b) <=") for p in pres):
            pp.append("len(b) <= %d" % n)
        pp += pres
        src += fn_src("lazy_" + lname, params, pp, ["a = list(a)" if "a:" in params else "pass", "b = list(b)" if "b:" in params else "pass", "return (%s) or explain(%r)" % (lz, lname)])
        plan.obs.append(Ob("lazy_" + lname, "lawlazy:" + lname, "m", "lazy_" + lname, 150 if tier == "quick" else 600, "confirmed", "law %s with lazy list arguments" % lname, "integer lists len<=%d, given as LazyLists" % n))
    src += fn_src("twin_sort", "a: List[int]", ["len(a) <= 3"], ["return F(vy_sort(list(a), C())) == list(a)"])
    plan.obs.append(Ob("twin_sort", "law:sort_ordered_perm", "m", "twin_sort", 60, "refuted", "reachability twin (wrong law)"))
    plan.modules["m"] = src
    plan.functions_encoded = ["vyxal/elements.py: vy_sort reverse uniquify vy_sum product monadic_maximum monadic_minimum cumulative_sum deltas sublists powerset permutations counts group_consecutive grade_up grade_down wrap deep_flatten head tail "
                              "uninterleave interleave vy_zip contains count_item find remove length all_equal cartesian_product merge truthy_indices any_true all_true vectorised_sum union palindromise head_remove tail_remove prepend vy_enumerate dyadic_maximum dyadic_minimum",
                              "vyxal/helpers.py: prefixes suffixes transpose foldl scanl iterable"]
    plan.rule = "one obligation per law (%d laws); the solver quantifies over the integer list(s) (length bound, unbounded items) and scalar operands; right-hand sides are written with builtins/itertools on the same symbolic list" % len(LAWS)
    plan.assumptions = ["empty-list conventions as the tree implements them: sum [] = 0, product [] = 0, max/min [] = [], head/tail [] = 0", "results are forced before comparison"]
    plan.outside = ["strings and rationals as items", "lists longer than %d" % n]
    return plan
