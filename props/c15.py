"""C15 - compression and base-conversion codecs round-trip (DESIGN.md C15)."""
from vfw.core import Ob, Plan, fn_src, known_exclusions

PRE = '''from hlib.common import *
import vyxal.dictionary as DICT
NUMA = ENC.codepage_number_compress
STRA = ENC.codepage_string_compress
COMP = ENC.compression
B27 = ENC.base_27_alphabet
ALPHABETS = {"number": NUMA, "string": STRA, "compression": COMP, "base27": B27}

def digits_ok(n, b, d):
    ds = H.to_base_digits(n, b)
    if len(ds) > d or len(ds) < 1:
        return explain('digit count', len(ds))
    for x in ds:
        if not (0 <= x < b):
            return explain('digit outside the base')
    if len(ds) > 1 and ds[0] == 0:
        return explain('leading zero digit')
    return H.from_base_digits(ds, b) == n

'''


def build(tier, seed, known):
    plan = Plan(prop="C15")
    src = PRE
    q = tier == "quick"

    def add(name, family, params, pres, body, timeout=120, desc="", bounds="", expect="confirmed"):
        nonlocal src
        pres = list(pres) + ["not (%s)" % e for e in known_exclusions(known, family)]
        src += fn_src(name, params, pres, body)
        plan.obs.append(Ob(name, family, "m", name, timeout, expect, desc, bounds))

    # 1. digit arithmetic, symbolic base
    add("digits_symbolic_base_d1", "digits", "n: int, b: int", ["2 <= b <= 300", "0 <= n < b"], ["return digits_ok(n, b, 1)"], 120, "to_base_digits/from_base_digits round trip, digits inside the base, no leading zero", "base symbolic 2..300, n < b")
    add("digits_symbolic_base_d2", "digits", "n: int, b: int", ["2 <= b <= 300", "0 <= n < b * b"], ["return digits_ok(n, b, 2)"], 300, "same, two digits", "base symbolic 2..300, n < b^2")
    for base in (2, 3, 10, 16, 27, 255, 300):
        for d in ((3, 4) if q else (3, 4, 5, 6)):
            add("digits_base%d_d%d" % (base, d), "digits", "n: int", ["0 <= n < %d" % base ** d], ["return digits_ok(n, %d, %d)" % (base, d)], 200, "round trip in base %d" % base, "all n < %d^%d" % (base, d))
    # boundaries b^k - 1, b^k, b^k + 1 far beyond 2^53 (the property's emphasis); realisation-exhausted over (base, k, j)
    add("digits_boundaries", "digits", "bi: int, k: int, j: int", ["0 <= bi <= 3", "1 <= k <= %d" % (24 if q else 60), "-1 <= j <= 1"],
        ["b = [2, 10, 255, 300][pick(bi, 0, 3)]; k = pick(k, 1, %d); j = pick(j, -1, 1)" % (24 if q else 60), "n = b ** k + j", "return digits_ok(n, b, k + 1)"], 600,
        "round trip and digit range at n = b^k + j", "bases 2, 10, 255, 300; k up to %d; j in -1..1" % (24 if q else 60))
    add("digits_big_symbolic", "digits", "x: int", ["0 <= x < 255 ** 3"], ["n = 2 ** 70 + x", "return digits_ok(n, 255, 12)"], 300, "round trip for n = 2^70 + x in base 255", "x symbolic below 255^3 (n far beyond 2^53)")
    # the loop-free inductive step of the decoder: one more digit from an arbitrary accumulator value
    add("from_digits_step", "digits", "ds: List[int], x: int, b: int", ["len(ds) <= 3", "2 <= b <= 300"], ["return H.from_base_digits(list(ds) + [x], b) == b * H.from_base_digits(list(ds), b) + x"], 300,
        "from_base_digits(ds + [x]) == b * from_base_digits(ds) + x (positional step; composes to any length)", "digit lists len<=3 with unbounded entries, base symbolic")
    # 2. alphabets: bijection index <-> character, own delimiter excluded, sizes
    for an, delim, size in (("number", "»", 255), ("string", "«", 255), ("compression", None, None), ("base27", None, 27)):
        body = ["A = ALPHABETS[%r]" % an, "c = A[i]", "if A.find(c) != i: return explain('alphabet has a repeated character')"]
        if delim:
            body.append("if c == %r: return explain('alphabet contains its own delimiter')" % delim)
        if an == "compression":
            body.append("if ord(c) < 128: return explain('compression alphabet contains an ASCII character')")
        body.append("return True" if size is None else "return len(A) == %d" % size)
        add("alphabet_" + an, "alphabet", "i: int", ["0 <= i < len(ALPHABETS[%r])" % an], body, 300, "alphabet %s: A.find(A[i]) == i for every index%s" % (an, ", delimiter excluded" if delim else ""), "every index (realisation-exhausted)")
    # 3. positional codec over a generic alphabet (the code is alphabet-generic; the real alphabets' properties are item 2)
    for an, alpha, d in (("abc", "xyz", 4), ("base27", None, 2), ("ten", "0123456789", 3)):
        aexpr = "B27" if alpha is None else repr(alpha)
        blen = 27 if alpha is None else len(alpha)
        add("alpha_roundtrip_num_" + an, "positional", "n: int", ["0 <= n < %d" % blen ** d], ["A = %s" % aexpr, "return H.from_base_alphabet(H.to_base_alphabet(n, A), A) == n"], 300,
            "from_base_alphabet(to_base_alphabet(n, A), A) == n", "alphabet %s, all n < %d^%d" % (an, blen, d))
        add("alpha_roundtrip_str_" + an, "positional", "s: str", ["1 <= len(s) <= %d" % d, "all(c in %s for c in s)" % aexpr, "s[0] != %s[0]" % aexpr], ["A = %s" % aexpr, "return H.to_base_alphabet(H.from_base_alphabet(s, A), A) == s"], 300,
            "to_base_alphabet(from_base_alphabet(s, A), A) == s for s without a leading zero digit", "alphabet %s, strings len<=%d" % (an, d))
    add("from_alphabet_step", "positional", "s: str, c: str", ["len(s) <= 2", "len(c) == 1", "all(ch in 'xyz' for ch in s)", "c in 'xyz'"],
        ["return H.from_base_alphabet(s + c, 'xyz') == 3 * H.from_base_alphabet(s, 'xyz') + 'xyz'.find(c)"], 200, "positional step of the alphabet decoder", "alphabet xyz, s len<=2")
    # 4. lexer transparency of compressed literals
    for kind, delim, an, tt in (("num", "»", "NUMA", "COMPRESSED_NUMBER"), ("str", "«", "STRA", "COMPRESSED_STRING")):
        L = 3 if q else 4
        add("lex_compressed_" + kind, "lexer", "s: str", ["len(s) <= %d" % L, "all(c in %s for c in s)" % an],
            ["toks = tokenise(%r + s + %r)" % (delim, delim), "return len(toks) == 1 and toks[0].name == TokenType.%s and toks[0].value == s" % tt], 400,
            "%s s %s lexes to exactly one %s token with value s" % (delim, delim, tt), "s over the alphabet, len<=%d" % L)
        add("parse_compressed_" + kind, "lexer", "s: str", ["1 <= len(s) <= 2", "all(c in %s for c in s)" % an],
            ["tree = parse(tokenise('[' + %r + s + %r + '|+]'))" % (delim, delim), "if len(tree) != 1 or type(tree[0]) is not STRUCT.IfStatement or len(tree[0].branches) != 2: return explain('structure changed')",
             "b = tree[0].branches[0]", "return len(b) == 1 and type(b[0]) is STRUCT.GenericStatement and b[0].branches[0][0].value == s"], 400,
            "the parser leaves a compressed literal a literal whatever its payload (inside an if branch)", "s over the alphabet, len 1..2")
    # 5. element wrappers, end to end (math.log in to_base realises n: realisation-exhausted ranges)
    add("number_compress_roundtrip", "wrapper", "n: int", ["1 <= n < %d" % (100 if q else 1500)],
        ["n = pick(n, 1, %d)" % (100 if q else 1500), "text = outside_tracer(E.base_255_number_compress, n, Context())", "toks = tokenise(text)", "if len(toks) != 1 or toks[0].name != TokenType.COMPRESSED_NUMBER: return explain('not one compressed-number token', text)",
         "return H.uncompress(toks[0]) == n"], 900, "øC: »…» text lexes to one token and decompresses to n", "all 1 <= n < %d (realisation-exhausted: math.log)" % (100 if q else 1500))
    add("number_compress_boundaries", "wrapper", "k: int, e: int", ["-2 <= k <= 2", "1 <= e <= 6", "255 ** e + k >= 1"],
        ["k = pick(k, -2, 2); e = pick(e, 1, 6)", "n = 255 ** e + k", "text = outside_tracer(E.base_255_number_compress, n, Context())", "toks = tokenise(text)", "return len(toks) == 1 and toks[0].name == TokenType.COMPRESSED_NUMBER and H.uncompress(toks[0]) == n"], 600,
        "øC at the base boundaries 255^e + k", "e 1..6, k -2..2")
    add("string_compress_roundtrip", "wrapper", "s: str", ["1 <= len(s) <= 2", "all(c in B27 for c in s)", "s[0] != ' '"] + (["len(s) == 1 or s[0] == 'q'"] if q else []),
        ["s = pick_str(s, B27, 2)", "text = outside_tracer(E.base_255_string_compress, s, Context())", "toks = tokenise(text)", "if len(toks) != 1 or toks[0].name != TokenType.COMPRESSED_STRING: return explain('not one compressed-string token')",
         "return H.uncompress(toks[0]) == s"], 900, "øc: «…« text lexes to one token and decompresses to s", "strings over [a-z ] not starting with a space, len<=2" + (" (quick: length 1, and length 2 starting with q)" if q else ""))
    # 6. dictionary compression: real DP and real dictionary on strings over a small alphabet that spells dictionary words
    add("dictionary_compress_roundtrip", "dictionary", "s: str", ["len(s) <= %d" % (3 if q else 4), "all(c in 'the a' for c in s)"],
        ["s = pick_str(s, 'the a', %d)" % (3 if q else 4), "text = E.optimal_compress(s, Context())", "if not (len(text) >= 2 and text[0] == chr(96) and text[-1] == chr(96)): return explain('not a back-quoted literal')",
         "body = text[1:-1]", "if len(body) > len(s): return explain('compressed text longer than the plain literal')", "return H.uncompress_dict(body) == s"], 900,
        "øD: output decompresses to the input and is never longer than the plain literal", "strings over {t,h,e,a,space}, len<=%d (dictionary lookup realises)" % (3 if q else 4))
    add("dictionary_code_bijection", "dictionary", "i: int", ["0 <= i < %d" % (400 if q else 3000)],
        ["code = H.to_base_alphabet(i, COMP)", "if len(code) == 1: code = COMP[0] + code", "return len(code) == 2 and H.from_base_alphabet(code, COMP) == i"], 900,
        "dictionary codes: index -> two-character code over the compression alphabet -> index", "indices below %d (realisation-exhausted)" % (400 if q else 3000))
    NW = 400 if q else 2000
    add("dictionary_word_codes", "dictionary", "i: int", ["0 <= i < %d" % NW],
        ["i = pick(i, 0, %d)" % (NW - 1), "w = DICT.contents[i]", "code = outside_tracer(DICT.word_index, w)", "if code == -1: return note('not in the lookup table')",
         "if DICT.lookup[w] != i: return note('duplicate word: an earlier index wins')", "return len(code) == 2 and outside_tracer(H.uncompress_dict, code) == w"], 900,
        "every dictionary word: word_index gives a two-character code that uncompress_dict turns back into the word", "the first %d dictionary words (realisation-exhausted)" % NW)
    # twins
    add("twin_digits", "digits", "n: int", ["0 <= n < 1000"], ["return digits_ok(n, 10, 2)"], 60, "reachability twin (digit bound too small)", "", "refuted")
    add("twin_lexer", "lexer", "s: str", ["len(s) <= 2"], ["toks = tokenise('»' + s + '»')", "return len(toks) == 1"], 60, "reachability twin (payload may contain the delimiter)", "", "refuted")
    plan.modules["m"] = src
    plan.functions_encoded = ["vyxal/helpers.py: to_base_digits from_base_digits to_base_alphabet from_base_alphabet uncompress uncompress_num uncompress_str uncompress_dict", "vyxal/encoding.py: codepage_number_compress codepage_string_compress compression base_27_alphabet",
                              "vyxal/elements.py: base_255_number_compress base_255_string_compress to_base from_base optimal_compress", "vyxal/dictionary.py: word_index", "vyxal/lexer.py: tokenise", "vyxal/parse.py: parse"]
    plan.rule = ("the codec round trip is decided as a chain of solver-closed obligations whose composition is plain function composition: digit arithmetic (symbolic base; concrete bases to 6 digits; positional step), alphabet bijectivity and delimiter exclusion, "
                 "alphabet-generic positional codec, lexer/parser transparency of compressed literals, element wrappers end to end on realisation-exhausted ranges, dictionary DP on strings that spell dictionary words")
    plan.assumptions = ["math.log / dict lookups realise their argument: the wrapper and dictionary obligations are realisation-exhausted over the stated finite ranges", "composition of the chain is function composition (not itself a solver step)"]
    plan.outside = ["integers to 10^120 and strings to length 80 end to end (only through the positional step lemma)", "dictionary compression of arbitrary ASCII (alphabet {t,h,e,a,space} only)"]
    return plan
