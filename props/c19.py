"""C19 - online mode contains the program: no host output, no evaluation of user text (DESIGN.md C19)."""
from vfw.core import Ob, Plan, fn_src, known_exclusions

PRE = '''from hlib.common import *
import ast as _ast
import builtins as _bi
import sys as _sys

class _Out:
    def __init__(self, hits): self.hits = hits
    def write(self, s):
        self.hits.append("stdout.write")
        return 0
    def flush(self): pass

def c19_run(prog, flags, text, kind):
    """returns (hits, record, escaped) for one online run; literal_eval is a nondeterministic stub selected by kind"""
    hits, allowed = [], []
    def fake_literal_eval(x):
        if kind == 0:
            raise ValueError("malformed node or string")
        return [7, "abc", [1, 2]][kind - 1]
    class FakeAst:
        literal_eval = staticmethod(fake_literal_eval)
    def det_eval(*a, **k):
        hits.append("eval")
        return 0
    real_exec = _bi.exec
    def det_exec(code, *a, **k):
        if any(code is c for c in allowed):
            return real_exec(code, *a, **k)
        hits.append("exec")
        return None
    real_compile = _bi.compile
    def det_compile(src, *a, **k):
        if any(src is c for c in allowed):
            return real_compile(src, *a, **k)
        hits.append("compile")
        raise SyntaxError("compile() of user text")
    def det_print(*a, **k):
        hits.append("print")
    depth = [0]
    real_vy_eval = H.vy_eval
    def vy_eval_marked(item, ctx):
        depth[0] += 1
        try:
            return real_vy_eval(item, ctx)
        finally:
            depth[0] -= 1
    real_sympy = H.__dict__["sympy"]
    class TextGuard:
        """sympy functions given a str while user text is being evaluated: sympify/nsimplify eval() such text"""
        def __getattr__(self, name):
            attr = getattr(real_sympy, name)
            if callable(attr) and not isinstance(attr, type):
                def guarded(*a, **k):
                    if depth[0] > 0 and any(isinstance(x, str) for x in a):
                        hits.append("sympy." + name + " on text")
                        return 0
                    return attr(*a, **k)
                return guarded
            return attr
    real_transpile = T.transpile
    def tr(*a, **k):
        c = real_transpile(*a, **k)
        allowed.append(c)
        return c
    record = {1: "", 2: ""}
    escaped = None
    mods = (H, E, M, LLmod)
    saved = [(m, n, m.__dict__.get(n, None), n in m.__dict__) for m in mods for n in ("eval", "exec", "compile", "print")]
    real_stdout = _sys.stdout
    try:
        H.ast = FakeAst
        H.__dict__["sympy"] = TextGuard()
        H.vy_eval = vy_eval_marked; E.vy_eval = vy_eval_marked; M.vy_eval = vy_eval_marked
        for m in mods:
            m.__dict__["eval"] = det_eval; m.__dict__["exec"] = det_exec; m.__dict__["compile"] = det_compile; m.__dict__["print"] = det_print
        M.transpile = tr
        T.transpile = tr
        _sys.stdout = _Out(hits)
        try:
            M.execute_vyxal(prog, flags + "e", text, record, True)
        except SystemExit:
            pass
        except Exception as e:
            escaped = e
    finally:
        _sys.stdout = real_stdout
        H.ast = _ast
        H.__dict__["sympy"] = real_sympy
        H.vy_eval = real_vy_eval; E.vy_eval = real_vy_eval; M.vy_eval = real_vy_eval
        M.transpile = real_transpile
        T.transpile = real_transpile
        for m, n, v, had in saved:
            if had: m.__dict__[n] = v
            else: m.__dict__.pop(n, None)
    return hits, record, escaped

def contained(prog, flags, text, kind, expect_output, expect_error):
    hits, record, escaped = c19_run(prog, flags, text, kind)
    if hits:
        return explain('host output or evaluation of text', hits)
    if escaped is not None:
        return explain('exception escaped execute_vyxal in online mode', type(escaped).__name__)
    if expect_output and record[1] == "":
        return explain('printed output missing from the output record')
    if expect_error and record[2] == "":
        return explain('error missing from the error record')
    return True

'''

# program, flags, prints something?, errors?, max text length
PROGRAMS = [
    ("print", "?,", "", True, False, 3), ("print_noline", "?₴", "", False, False, 3), ("print_keep", "?…_", "", True, False, 3), ("print_space", "?¨,", "", True, False, 3),
    ("implicit", "?", "", True, False, 3), ("implicit_second_line", "??_", "", True, False, 3), ("eval_elem", "?E,", "", False, False, 2), ("eval_implicit_join", "?E", "j", False, False, 2), ("call_on_string", "?†", "", True, False, 3),
    ("list_output", '??"', "", True, False, 3), ("wrapped_print", "?w,", "", True, False, 3), ("function_print", "λ1;,", "", True, False, 2), ("lazy_print", "?ɾ,", "", True, False, 2), ("lazy_print_twice", "?ɾ…,", "", True, False, 2), ("lazy_print_dup", "?ɾ:,,", "", True, False, 2), ("lazy_print_after_len", "?ɾ:L_,", "", True, False, 2), ("list_print_twice", "?w…,", "", True, False, 2),
    ("all_strings_flag", "?", "Ṡ", True, False, 3), ("array_flag", "?", "a", True, False, 3), ("show_code_flag", "?,", "c", True, False, 2), ("stack_flag", "??", "W", True, False, 2),
    ("error_eager", "`a`₀β", "", False, True, 1), ("error_lazy_output", "3ɾƛ`a`β;", "", False, True, 1), ("error_in_print", "3ɾƛ`a`β;,", "", False, True, 1),
    ("vy_exec_elem", "?Ė", "", False, False, 1), ("uncompilable_template", "?¨…", "", False, True, 1), ("malformed_modifier_operand", "1 2 ₌+ ", "", False, True, 1), ("malformed_trailing_modifier", "?v ", "", False, True, 1),
    ("malformed_call_with_parameters", "@f:1;", "", False, True, 1), ("malformed_lambda_arity", "λa|1;", "", False, True, 1), ("no_output_flag", "?", "O", False, False, 2), ("dup_eval_sum", "?:E+", "", False, False, 1),
]


def build(tier, seed, known):
    plan = Plan(prop="C19")
    src = PRE
    for name, prog, flags, out, err, maxlen in PROGRAMS:
        ml = maxlen if tier == "quick" else maxlen + 1
        fam = "online:" + name
        pres = ["len(text) <= %d" % ml, "0 <= kind <= 3"] + ["not (%s)" % e for e in known_exclusions(known, fam)]
        src += fn_src("o_" + name, "text: str, kind: int", pres, ["return contained(%r, %r, text, kind, %r, %r)" % (prog, flags, out, err)])
        plan.obs.append(Ob("o_" + name, fam, "m", "o_" + name, 240, "confirmed", "execute_vyxal(%r, flags=%r, online) with symbolic input text and a nondeterministic literal_eval: no eval/exec/compile of anything but the transpiler's output, no print/stdout, no escaping exception%s%s" % (prog, flags + "e", ", output in the record" if out else "", ", error in the error record" if err else ""),
                           "input text any Unicode incl. newlines, len<=%d; literal_eval outcome in {raises, 7, 'abc', [1,2]}" % ml))
    try:
        from props.c01 import prepare
        gen = prepare(tier, seed)["keep"][27:27 + (12 if tier == "quick" else 150)]
    except Exception:  # noqa
        gen = []
    for gi, P in enumerate(gen):
        name = "og%03d" % gi
        src += fn_src(name, "text: str, kind: int", ["len(text) <= 2", "0 <= kind <= 3"], ["return contained(%r, '', text, kind, False, False)" % P])
        plan.obs.append(Ob(name, "online:generated", "m", name, 90, "confirmed", "generated program %s in online mode: no eval/exec/compile of text, no host output, no escaping exception" % P, "input text len<=2 (any Unicode), literal_eval outcome in {raises, 7, 'abc', [1,2]}"))
    src += fn_src("twin_online", "text: str, kind: int", ["len(text) <= 2", "0 <= kind <= 3"], ["return contained('?,', '', text, kind, True, True)"])
    plan.obs.append(Ob("twin_online", "online:print", "m", "twin_online", 120, "refuted", "reachability twin (demands an error that does not happen)"))
    plan.modules["m"] = src
    plan.functions_encoded = ["vyxal/main.py: execute_vyxal", "vyxal/helpers.py: vy_eval get_input pop", "vyxal/elements.py: vy_print vy_str vy_repr exp2_or_eval function_call vy_exec", "vyxal/LazyList.py: output", "vyxal/transpile.py: transpile (concrete programs)"]
    plan.rule = "skeleton = (program, flag set) from the printing / evaluating / erroring list; the solver quantifies over the input text (the taint) and over the outcome of ast.literal_eval (stub), so both the 'parsed as literal' and the 'kept as string' arms are explored for every text"
    plan.assumptions = ["ast.literal_eval is replaced by a nondeterministic stub (raises, or returns 7 / 'abc' / [1,2]; a float outcome is left out: sympy Rational arithmetic under the tracer is nondeterministic): it is the documented safe parser", "detectors: module-level eval/exec/compile/print of helpers, elements, main, LazyList and sys.stdout; exec of the very string transpile() returned is allowed",
                        "Vyxal code executed by Ė is allowed by the property (its generated Python is C18's subject)"]
    plan.outside = ["programs outside the list", "texts longer than the bound", "string overloads of ∆e ∆E ∆L ∆Ė øḋ (sympy.sympify evaluates user text; the property does not list these elements)", "network (¨U)"]
    return plan
