"""C06 - quoting a string and evaluating the quoted text returns the same string (DESIGN.md C06)."""
import itertools

from vfw.core import Ob, Plan, fn_src, known_exclusions, PY, REPO, VERIF

PRE = '''from hlib.common import *
from hlib.pylit import pydecode
CP = ENC.codepage
ASCII = "".join(c for c in CP if 32 <= ord(c) < 127) + chr(10)
HEAD = 'stack.append("'
TAIL = '")' + chr(10)

def roundtrip(s, compress):
    ctx = Context()
    text = E.quotify(s, ctx)
    toks = tokenise(text)
    if len(toks) != 1 or toks[0].name != TokenType.STRING:
        return explain('quoted text is not exactly one STRING token')
    line = T.transpile_token(toks[0], 0, dict_compress=compress)
    if not (line.startswith(HEAD) and line.endswith(TAIL)):
        return explain('emitted line shape')
    body = line[len(HEAD) : len(line) - len(TAIL)]
    dec = pydecode(body)
    if dec is None:
        return explain('emitted body is not one well-formed literal body')
    return dec == s

'''
CLASSES = [("bs", "{x} == chr(92)"), ("bq", "{x} == chr(96)"), ("dq", "{x} == chr(34)"), ("nl", "{x} == chr(10)"),
           ("other", "{x} != chr(92) and {x} != chr(96) and {x} != chr(34) and {x} != chr(10)")]


def validate_witnesses(ctx):
    """Stub validation: every string of length <= 3 over the escape-relevant alphabet is pushed through
    quotify -> transpile_token -> the real compiler (vs pydecode) and through the real interpreter."""
    import subprocess, json, os
    prog = r'''
import sys, json, warnings, itertools
warnings.filterwarnings("ignore")
sys.path[:0] = [%r, %r]
from hlib.common import *
from hlib.pylit import pydecode
bad = []
alpha = [chr(92), chr(96), chr(34), chr(39), chr(10), "a", "n", "x", "0", "λ"]
n = 0
for L in range(0, 4):
    for t in itertools.product(alpha, repeat=L):
        s = "".join(t)
        for compress in (False, True):
            if compress and "λ" in s: continue
            n += 1
            ctx = Context(); stack = []; ctx.stacks.append(stack)
            toks = tokenise(E.quotify(s, ctx))
            line = T.transpile_token(toks[0], 0, dict_compress=compress)
            body = line[len('stack.append("'):-3]
            try:
                real = eval('"' + body + '"')
            except Exception as e:
                real = None
            if pydecode(body) != real:
                bad.append(("pydecode disagrees with CPython", s, body)); continue
            code = T.transpile(E.quotify(s, ctx), dict_compress=compress)
            ns = fresh_ns(ctx, stack)
            try:
                exec(code, ns)
                ok = stack == [s]
            except Exception as e:
                ok = False
            if not ok:
                bad.append(("interpreter disagrees", s, compress))
print(json.dumps({"n": n, "bad": bad[:5]}))
''' % (REPO, VERIF)
    p = subprocess.run([PY, "-c", prog], stdin=subprocess.DEVNULL, stdout=subprocess.PIPE, stderr=subprocess.PIPE, timeout=900)
    try:
        out = json.loads(p.stdout.decode().strip().splitlines()[-1])
    except Exception:
        return {"errors": ["stub validation crashed: " + p.stderr.decode()[-500:]]}
    res = {"validated": out["n"], "coverage": {"stub_validation_strings": out["n"]}}
    if out["bad"]:
        what = "C06 concrete validation: %r" % (out["bad"][0],)
        kind, s0 = out["bad"][0][0], out["bad"][0][1]
        if kind == "interpreter disagrees":
            replay = ("import sys, warnings; warnings.filterwarnings('ignore'); sys.path[:0]=[%r,%r]\nfrom hlib.common import *\ns=%r\nctx=Context(); stack=[]; ctx.stacks.append(stack)\n"
                      "exec(T.transpile(E.quotify(s, ctx), dict_compress=%r), fresh_ns(ctx, stack))\nprint(stack)\nsys.exit(0 if stack == [s] else 1)\n" % (REPO, VERIF, s0, out["bad"][0][2]))
            res["violations"] = [(what, replay)]
        else:
            res["errors"] = [what]
    return res


def build(tier, seed, known):
    plan = Plan(prop="C06")
    src = PRE
    maxlen = 4 if tier == "quick" else 5

    def add(name, family, length, classes, compress, twin=False):
        nonlocal src
        pres = ["len(s) == %d" % length] if isinstance(length, int) else ["len(s) <= %d" % length[1]]
        alpha = "ASCII" if compress else "CP"
        pres.append("all(c in %s for c in s)" % alpha)
        for i, (cn, cond) in enumerate(classes):
            pres.append(cond.format(x="s[%d]" % i))
        pres += ["not (%s)" % e for e in known_exclusions(known, family)]
        body = ["ok = roundtrip(s, %s)" % compress, "return %s" % ("ok and len(s) > 99" if twin else "ok")]
        src += fn_src(name, "s: str", pres, body)
        plan.obs.append(Ob(name, family, "m", name, 400 if not twin else 120, "refuted" if twin else "confirmed",
                           "quotify -> tokenise -> transpile_token -> literal decode == s; %s; %s" % ("dictionary compression on, printable ASCII + newline" if compress else "compression off, whole code page",
                            "first characters in classes " + ",".join(c for c, _ in classes) if classes else "all strings"),
                           "len(s) %s" % (("== %d" % length) if isinstance(length, int) else "<= %d" % length[1])))

    for compress, fam in ((False, "A_codepage"), (True, "B_ascii_dict")):
        tag = "b" if compress else "a"
        add("%s_len0to2" % tag, fam, ("le", 2), [], compress)
        for L in range(3, maxlen + 1):
            k = L - 2
            for combo in itertools.product(CLASSES, repeat=k):
                add("%s_len%d_%s" % (tag, L, "_".join(c for c, _ in combo)), fam, L, list(combo), compress)
    add("twin_a", "A_codepage", ("le", 2), [], False, twin=True)
    add("twin_b", "B_ascii_dict", ("le", 2), [], True, twin=True)
    plan.modules["m"] = src
    plan.post_steps.append(validate_witnesses)
    plan.functions_encoded = ["vyxal/elements.py: quotify vy_type", "vyxal/lexer.py: tokenise (string branch)", "vyxal/transpile.py: transpile_token (STRING)", "vyxal/helpers.py: uncompress uncompress_dict indent_str"]
    plan.rule = ("the solver quantifies over the string s (all strings over the 256-character code page up to length %d, compression off; printable ASCII + newline, compression on), "
                 "split into obligations by length and by the escape class (backslash, back-quote, double quote, newline, other) of the leading characters; oracle: the emitted line is "
                 "stack.append(\"<body>\") and pydecode(body) == s" % maxlen)
    plan.assumptions = ["pydecode (hlib/pylit.py) models CPython's literal decoding; validated against the real compiler and the real interpreter (exec of transpile(quotify(s))) on every string of length <=3 over the escape-relevant alphabet {backslash, back-quote, quotes, newline, a, n, x, 0, λ}",
                        "family C of the design (hand-written literal with escaped backslashes/back-quotes) is textually the output of quotify, hence the same obligations"]
    plan.outside = ["strings longer than %d" % maxlen, "characters outside the code page", "the random tier to length 40 (sampling is not this technique)"]
    return plan
