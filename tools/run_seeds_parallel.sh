#!/bin/bash
# tools/run_seeds_parallel.sh <streams> : re-tests every seeded change against the current checks, <streams> at a time
# (each check limited to 16/<streams> worker processes); one summary line per seed in seed_regression.log
cd /verif
N=${1:-4}
export VERIF_JOBS=$((16 / N))
ls -d seeded/*/ | xargs -P "$N" -I{} bash -c 'd={}; id=$(basename $d); prop=${id%%-*}; out=$(tools/seedtest.sh $prop /verif/$d 2>&1); echo "$id $(echo "$out" | grep -E "^SEED" | sed "s/^SEED [^:]*: //") | $(echo "$out" | grep -E "tier=" | tail -1 | sed "s/paths=.*//") | $(echo "$out" | grep "check exit")"' > seed_regression.log 2>&1
