#!/usr/bin/env python3
"""Writes MANIFEST.json from the table below (one entry per claimed property)."""
import json, os
V = os.path.dirname(os.path.dirname(os.path.abspath(__file__)))
TECH = "symbolic execution of the real Python code (CrossHair 0.0.110) + SMT (z3), bounded"
TECHS = {
 "C07": "symbolic execution of the real functions (CrossHair + z3) and an AST-to-SMT encoding of the overload tables decided by z3, cross-checked with cvc5; sat answers replayed on the real code",
 "C01": "translation validation: symbolic execution (CrossHair + z3) of the transpiler's output against a reference interpreter, per program skeleton, bounded inputs",
 "C20": "symbolic execution (CrossHair + z3) with a membership precondition over the finite key set; z3 Distinct / equality queries over the tables",
 "C05": "symbolic execution (CrossHair + z3) of lexer and lowering, bounded length; sympy's evaluation validated concretely as a trusted stub",
 "C18": "symbolic execution (CrossHair + z3) per syntactic position, bounded payloads; counterexamples confirmed by real compile + AST/token comparison; supplementary concrete corpus",
}
CHECKS = {
 "C01": ("translation_validation", "Translation validation of the transpiler: for each program skeleton the Python text returned by transpile() is executed symbolically (inputs symbolic) and compared with an independent reference interpreter of the documented structure semantics applied to the parser's tree; z3 decides agreement for every input within the bounds.",
         "Bounds: skeleton list, input ranges, loop counts <=3. Trusts CrossHair/z3, the reference interpreter (written from the documents), element functions of the closed core."),
 "C03": ("model_checking", "For 42 syntactic contexts x 8 literal kinds the solver decides, for every payload (any Unicode, bounded length), that the parse shape and all other tokens are independent of the payload and the payload token carries it.",
         "Bounds: payload length <=3 (thorough 6), listed contexts. Trusts CrossHair's z3 string model."),
 "C04": ("model_checking", "For each closed program skeleton and every truncation of its trailing closers the solver decides parse-tree equality for every filler element character and literal payload.",
         "Bounds: skeleton list/depth, payload <=2 chars. Trusts CrossHair/z3."),
 "C05": ("model_checking", "The solver decides for every digit/point string up to the bound that the lexer splits it as documented and that the NUMBER lowering emits exactly the literal's own digits into an exact constructor; the constructor's evaluation by sympy is a validated trusted stub.",
         "Bounds: length <=5 (thorough 8). sympy's exact constructors trusted (validated concretely on hard literals)."),
 "C06": ("model_checking", "For every string over the 256-char code page up to the bound the solver decides that quotify -> lexer -> STRING lowering yields exactly one well-formed Python literal whose decoding (pydecode model, validated against CPython) is the string.",
         "Bounds: length <=4 (thorough 5). pydecode model trusted after validation on 2k strings against compile/exec."),
 "C07": ("model_checking", "Exactness and type closure of + - * / % floor-div decided by z3 over all python ints (CrossHair on the real functions) and, for sympy rationals, over an AST-level encoding of the overload tables with sympy's exact arithmetic as the stated contract.",
         "sympy's Rational arithmetic is the trusted contract; bounds on divisors for % and floor-div in the int tier."),
 "C08": ("model_checking", "For the frozen set of 86 element-wise elements and each argument shape the solver decides that the real list fallback (vectorise, vy_zip zero fill, recursion, lazy/eager) produces position-by-position spy results for all list lengths/contents within the bound.",
         "Bounds: lists <=3 (thorough 4), nesting depth 3. Scalar overloads replaced by spies (stated)."),
 "C09": ("model_checking", "Every runnable key of the live element table (template exec'ed with spy element functions) and 26 modifier programs: the solver decides for every prefix depth, list-argument contents and reverse flag that the prefix keeps identity and contents and the function receives exactly the top k.",
         "Bounds: prefix 0..2 (thorough 4) sentinel entries. Element functions are spies; whole-stack operations checked against their own weaker contract."),
 "C10": ("model_checking", "For every list-accepting element function reachable symbolically and for copy-then-transform programs the solver decides that argument lists and untouched copies are unchanged for all list contents within the bound.",
         "Bounds: lists <=3; elements whose list overload enters sympy on symbolic data are listed inconclusive and not claimed."),
 "C11": ("model_checking", "One-step inductive lemmas (arbitrary inputs, unbounded cursor, stack fill; top level and inside a call scope) plus whole programs with every delivered read logged: the solver decides the cyclic-stream oracle for all inputs.",
         "Bounds: inputs <=4, arity <=3, program list. STDIN absent (stub)."),
 "C12": ("model_checking", "30 programs with break/continue/recurse at legal positions and lazy-list printing, exec'ed statement by statement; the solver decides for all inputs (which drive loop counts, branches, exits) that the four bookkeeping depths and the top-level context are restored.",
         "Bounds: program list, inputs in -1..3."),
 "C13": ("model_checking", "For every history of observation kinds up to the bound the solver decides agreement of the real LazyList with a list model for all source lists and all operation parameters.",
         "Bounds: list <=3, histories <=2 (thorough 3, sampled 4), slice bounds windowed."),
 "C14": ("model_checking", "For each catalogued lazy transformation the solver decides, for every strictly increasing integer source and every n up to the bound, that the first n items equal the model and at most the declared linear number of items is pulled (over-pulling raises).",
         "Bounds: n <=3 (thorough 8); declared pull bounds measured at design time."),
 "C15": ("model_checking", "Codec round trips decomposed into solver-closed obligations: digit arithmetic for symbolic bases, alphabet bijectivity and delimiter exclusion, one positional step from an arbitrary accumulator, lexer/parser transparency of compressed literals, element wrappers, dictionary-compression DP.",
         "Bounds per obligation stated in evidence; composition is plain function composition."),
 "C16": ("model_checking", "51 executable laws; for each the solver decides the law on the real element function for all integer lists within the length bound (unbounded items).",
         "Bounds: lists <=3 (thorough 4)."),
 "C18": ("model_checking", "Non-interference: for each syntactic position accepting program text the solver decides for every payload (any Unicode, bounded length) that the generated Python differs from the benign-payload output only inside string constants and VAR_ identifier tails of safe characters.",
         "Bounds: payload <=2 (thorough 4). pymask lexical model validated against tokenize/compile."),
 "C19": ("model_checking", "execute_vyxal in online mode with symbolic input text and a nondeterministic literal_eval stub; detectors on eval/exec/compile/print: the solver decides that no path evaluates user text or prints to the host, output lands in the record and errors do not escape.",
         "Bounds: text <=3 chars, program list. literal_eval replaced by a nondeterministic stub (stated)."),
 "C20": ("model_checking", "Finite configuration: z3 Distinct over the 256 code-page characters and table keys; CrossHair with a membership precondition over all keys decides one-token lexing and parse kind; byte round trip for all byte strings <=2.",
         "Exhaustive over the finite domains stated."),
}
NA = [
 {"property_id": "C02", "reason": "the deciding oracle is CPython's compile(), a C parser that cannot be executed symbolically or encoded; over program derivations symbolic execution degenerates to enumerating concrete compile() calls (measured)"},
 {"property_id": "C17", "reason": "every listed builtin is a one-line dispatch into sympy or a C builtin whose number theory is the property; symbolic integers cannot pass through them and an uninterpreted-function model would only mirror the source"},
]
def main():
    done = sorted(p[:-3].upper() for p in os.listdir(os.path.join(V, "props")) if p.startswith("c") and p.endswith(".py"))
    checks = []
    for pid in done:
        cat, text, note = CHECKS[pid]
        checks.append({"property_id": pid, "quick_cmd": "./check %s --tier quick" % pid, "thorough_cmd": "./check %s --tier thorough" % pid,
                       "evidence_file": "evidence/%s.json" % pid, "replay_cmd_template": "./check --replay {path}", "engine": "E1-crosshair",
                       "level_claimed": {"category": cat, "text": text, "design_ref": "DESIGN.md section 3 (%s) and section 8" % pid}, "level_note": note, "technique": TECHS.get(pid, TECH)})
    na = list(NA)
    for pid in sorted(CHECKS):
        if pid not in done:
            na.append({"property_id": pid, "reason": "check not built yet in this round (planned, see DESIGN.md); not claimed until its check exists"})
    m = {"version": 1, "setup_cmd": "bin/ensure_env.sh",
         "hooks": {"guard": "MATHCAT4_VYXAL2_VERIF", "enable": "no hooks: all stubs, spies and detectors are installed at run time inside the harness process; nothing is added to /repo",
                   "baseline_off_cmd": "cd /repo && /venv/bin/python -m pytest -ra -q -p no:cacheprovider --timeout=900 --continue-on-collection-errors", "source_commits": [], "add_only": True},
         "engines": [{"name": "E3-vysym", "path": "hlib/vysym.py", "serves_properties": ["C07"], "kind_free_text": "typed symbolic evaluation of the arithmetic element functions straight from the AST of /repo/vyxal/elements.py and helpers.py into z3 terms (Int/Real), library stubs no stronger than sympy's contract, cvc5 cross-check, candidate replay on the real functions"},
                     {"name": "E1-crosshair", "path": "vfw/", "serves_properties": done, "kind_free_text": "CrossHair 0.0.110 symbolic execution of the real Python functions with z3 5.1; skeleton x holes obligations generated from /repo's live tables on every run; counterexamples replayed on the real code before being reported"}],
         "checks": checks, "not_applicable": na,
         "notes": "exit codes: 0 held on everything explored, 1 VIOLATION (replayed on the real code), 3 harness error (never reported as a violation). known_findings.json lists fixed defects (fix: commits in /repo)."}
    json.dump(m, open(os.path.join(V, "MANIFEST.json"), "w"), indent=1, ensure_ascii=False)
main()
