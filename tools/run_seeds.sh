#!/bin/bash
# tools/run_seeds.sh [PROP...] : re-tests every seeded change under seeded/ (or those of the given properties) against the current checks.
# For each seed: scratch copy of /repo HEAD + patch, the 392 tests, the demonstration, then ./check <PROP> against the patched copy.
cd /verif
for d in seeded/*/; do
  id=$(basename "$d"); prop=${id%%-*}
  if [ $# -gt 0 ] && [[ ! " $* " =~ " $prop " ]]; then continue; fi
  echo "=== $id"
  tools/seedtest.sh "$prop" "/verif/$d" 2>&1 | grep -E "^SEED|tier=|check exit" 
done
