# Design-time tool: measures the pulls of every catalogue entry on the CURRENT tree and freezes declared bounds (measured + 1) into c14_catalogue.json.
# Run only on a tree known to be good: PYTHONPATH=/repo:/verif .venv/bin/python tools/mk_c14_catalogue.py
import json, signal, warnings, itertools
warnings.filterwarnings("ignore")
from hlib.common import *
CAT = [
 # name, code, source kind, model over V (long prefix of the source) as python expression giving the full image list (>= n items)
 ("map_lambda", "ƛ›;", "inc", "[v + 1 for v in V]"),
 ("filter_even", "'₂;", "consec", "[v for v in V if v % 2 == 0]"),
 ("zip_self", "z", "inc", "[[v, v] for v in V]"),
 ("zip_with_range", "₁ɾZ", "inc", "[[v, i + 1] for i, v in enumerate(V)]"),
 ("interleave_with_range", "₁ɾY", "inc", "[x for i, v in enumerate(V) for x in (v, i + 1)]"),
 ("prefixes", "K", "inc", "[V[: i + 1] for i in range(len(V))]"),
 ("cumulative_sums", "¦", "inc", "list(itertools.accumulate(V))"),
 ("deltas", "¯", "inc", "[V[i + 1] - V[i] for i in range(len(V) - 1)]"),
 ("windows_3", "3l", "inc", "[V[i : i + 3] for i in range(len(V) - 2)]"),
 ("chunks_3", "3ẇ", "inc", "[V[i : i + 3] for i in range(0, len(V) - 2, 3)]"),
 ("flatten", "f", "inc", "list(V)"),
 ("uniquify", "U", "inc", "list(V)"),
 ("enumerate", "ė", "inc", "[[i, v] for i, v in enumerate(V)]"),
 ("prepend", "₀p", "inc", "[10] + list(V)"),
 ("append_merge", "₀J", "inc", "list(V)"),
 ("slice_from_3", "3ȯ", "inc", "list(V[3:])"),
 ("slice_from_0", "0ȯ", "inc", "list(V)"),
 ("slice_from_1", "1ȯ", "inc", "list(V[1:])"),
 ("slice_from_0_then_map", "0ȯƛ›;", "inc", "[v + 1 for v in V]"),
 ("vector_add", "₀+", "inc", "[v + 10 for v in V]"),
 ("vector_mul", "₀*", "inc", "[v * 10 for v in V]"),
 ("vector_sub", "₀-", "inc", "[v - 10 for v in V]"),
 ("vector_less", "₀<", "inc", "[int(v < 10) for v in V]"),
 ("double", "d", "inc", "[2 * v for v in V]"),
 ("negate", "N", "inc", "[-v for v in V]"),
 ("increment", "›", "inc", "[v + 1 for v in V]"),
 ("head_remove", "Ḣ", "inc", "list(V[1:])"),
 ("every_3rd", "3Ḟ", "inc", "list(V[::3])"),
 ("remove_value", "₀o", "inc", "[v for v in V if v != 10]"),
 ("vectorise_modifier", "v›", "inc", "[v + 1 for v in V]"),
 ("map_element", "⁽›M", "inc", "[v + 1 for v in V]"),
 ("filter_element", "⁽₂F", "consec", "[v for v in V if v % 2 == 0]"),
 ("group_consecutive", "Ġ", "inc", "[[v] for v in V]"),
 ("remove_at_3", "3⟇", "inc", "[v for i, v in enumerate(V) if i != 3]"),
 ("truthy_indices", "T", "inc", "[i for i, v in enumerate(V) if v != 0]"),
 ("uninterleave_second", "y", "inc", "list(V[1::2])"),
 ("vector_add_self", ":+", "inc", "[2 * v for v in V]"),
 ("zip_with_short_finite", "3ɾZ", "inc", "[[v, i + 1 if i < 3 else 0] for i, v in enumerate(V)]"),
 ("vector_add_short_finite", "3ɾ+", "inc", "[v + (i + 1 if i < 3 else 0) for i, v in enumerate(V)]"),
 ("short_finite_zip_infinite", "3ɾ$Z", "inc", "[[i + 1 if i < 3 else 0, v] for i, v in enumerate(V)]"),
 ("merge_finite_then_infinite", "3ɾ$J", "inc", "[1, 2, 3] + list(V)"),
 # string items
 ("str_chunks_3", "3ẇ", "str", "[''.join(V[i : i + 3]) for i in range(0, len(V) - 2, 3)]"),
 ("str_windows_3", "3l", "str", "[V[i : i + 3] for i in range(len(V) - 2)]"),
 ("str_prefixes", "K", "str", "[V[: i + 1] for i in range(len(V))]"),
 ("str_zip_self", "z", "str", "[[v, v] for v in V]"),
 ("str_enumerate", "ė", "str", "[[i, v] for i, v in enumerate(V)]"),
 ("str_prepend", "₀p", "str", "[10] + list(V)"),
 ("str_slice_from_3", "3ȯ", "str", "list(V[3:])"),
 ("str_head_remove", "Ḣ", "str", "list(V[1:])"),
 ("str_every_3rd", "3Ḟ", "str", "list(V[::3])"),
 ("str_remove_at_3", "3⟇", "str", "[v for i, v in enumerate(V) if i != 3]"),
 ("str_interleave_with_range", "₁ɾY", "str", "[x for i, v in enumerate(V) for x in (v, i + 1)]"),
 ("str_map_pair", "ƛ:\";", "str", "[[v, v] for v in V]"),
 ("str_vector_add", "₀+", "str", "[v + '10' for v in V]"),
 # compositions
 ("map_then_cumsum", "ƛ›;¦", "inc", "list(itertools.accumulate(v + 1 for v in V))"),
 ("deltas_then_prefixes", "¯K", "inc", "(lambda D: [D[: i + 1] for i in range(len(D))])([V[i + 1] - V[i] for i in range(len(V) - 1)])"),
 ("enumerate_then_uniquify", "ėU", "inc", "[[i, v] for i, v in enumerate(V)]"),
 ("slice_then_double_then_windows", "3ȯd3l", "inc", "(lambda W: [W[i : i + 3] for i in range(len(W) - 2)])([2 * v for v in V[3:]])"),
 ("prepend_then_headremove_then_negate", "₀pḢN", "inc", "[-v for v in V]"),
 ("zip_then_map_sum", "zƛ∑;", "inc", "[2 * v for v in V]"),
]
class TO(Exception): pass
def handler(*a): raise TO()
signal.signal(signal.SIGALRM, handler)
out = []
for name, code, kind, model in CAT:
    text = T.transpile(code)
    row = []
    ok = True
    for n in range(0, 13):
        pulls = [0]
        V = [("s%d" % i) if kind == "str" else (5 + 2 * i if kind == "inc" else 7 + i) for i in range(90)]
        def src():
            for x in V:
                pulls[0] += 1
                yield x
        ll = LazyList(src(), isinf=True)
        ctx = Context(); st = [ll]; ctx.stacks.append(st)
        ns = fresh_ns(ctx, st)
        try:
            signal.alarm(10)
            exec(text, ns)
            r = st[-1]
            got = [force(r[k]) for k in range(n)]
            signal.alarm(0)
        except BaseException as e:
            signal.alarm(0); row.append("ERR %s %s" % (type(e).__name__, e)); ok = False; break
        want = eval(model, {"V": V, "itertools": itertools})[:n]
        if got != want:
            row.append("MODEL MISMATCH n=%d got=%r want=%r" % (n, got[:4], want[:4])); ok = False; break
        row.append(pulls[0])
    print(name, code, row)
    if ok:
        out.append({"name": name, "code": code, "source": kind, "model": model, "measured_pulls": row, "declared_bound": [p + 1 for p in row]})
json.dump({"_doc": "C14 catalogue: lazy transformations as Vyxal programs applied to an infinite source, the model of their image over the source prefix V, the pulls measured on the pinned tree for n = 0..12 first items, and the declared bound (measured + 1 unit of slack). Frozen at design time: a transformation that needs more pulls is a finding.", "entries": out}, open("/verif/c14_catalogue.json", "w"), indent=1, ensure_ascii=False)
print(len(out), "of", len(CAT))
