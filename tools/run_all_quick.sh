#!/bin/bash
# runs every claimed check's quick tier on /repo, in sequence; prints one summary line per check
cd /verif
for id in $(python3 -c "import json; print(' '.join(c['property_id'] for c in json.load(open('MANIFEST.json'))['checks']))"); do
  s=$(date +%s); out=$(./check $id --tier quick 2>&1); rc=$?; e=$(date +%s)
  echo "$id rc=$rc $((e-s))s $(echo "$out" | grep -E "tier=" | tail -1)"
  echo "$out" | grep -E "^VIOLATION|^HARNESS-ERROR|^KNOWN-FINDING" | head -5
done
