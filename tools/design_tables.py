#!/usr/bin/env python3
"""Rewrites the generated tables of DESIGN.md (between the markers) from seeded/*/meta.json, known_findings.json and evidence/*.json."""
import glob, json, os, re
V = os.path.dirname(os.path.dirname(os.path.abspath(__file__)))
def seeds():
    rows = ["| seeded change | property | what it needs to manifest (author's note, abridged) | detected by |", "|---|---|---|---|"]
    for d in sorted(glob.glob(os.path.join(V, "seeded", "*"))):
        m = json.load(open(os.path.join(d, "meta.json")))
        need = " ".join(m["needs_to_manifest"].split())
        need = (need[:230] + "…") if len(need) > 230 else need
        rows.append("| %s | %s | %s | %s |" % (os.path.basename(d), m["property"], need.replace("|", "¦"), m["detected"].replace("|", "¦")))
    return "\n".join(rows)
def findings():
    d = json.load(open(os.path.join(V, "known_findings.json")))
    rows = ["| id | property | status | what |", "|---|---|---|---|"]
    for e in d["findings"]:
        rows.append("| %s | %s | %s%s | %s |" % (e["id"], e["property"], e["status"], (" " + e.get("commit", "")) if e.get("commit") else "", e["what"].replace("|", "¦")))
    return "\n".join(rows)
def evidence():
    rows = ["| property | tier | obligations | confirmed | inconclusive | paths | solver checks | solver s | wall s |", "|---|---|---|---|---|---|---|---|---|"]
    for f in sorted(glob.glob(os.path.join(V, "evidence", "*.json"))):
        e = json.load(open(f)); c = e["coverage"]
        rows.append("| %s | %s | %s | %s | %s | %s | %s | %s | %s |" % (e["property_id"], e["tier"], c.get("obligations"), c.get("discharged"), c.get("inconclusive"), c.get("states"), c.get("transitions"), c.get("solver_s"), e["wall_s"]))
    return "\n".join(rows)
def thorough():
    rows = ["| property | obligations | confirmed | inconclusive | violations | paths | solver checks | solver s | wall s |", "|---|---|---|---|---|---|---|---|---|"]
    for f in sorted(glob.glob(os.path.join(V, "evidence_thorough", "*.json"))):
        e = json.load(open(f)); c = e["coverage"]
        rows.append("| %s | %s | %s | %s | %s | %s | %s | %s | %s |" % (e["property_id"], c.get("obligations"), c.get("discharged"), c.get("inconclusive"), e.get("violations"), c.get("states"), c.get("transitions"), c.get("solver_s"), e["wall_s"]))
    return "\n".join(rows)
def main():
    p = os.path.join(V, "DESIGN.md")
    s = open(p, encoding="utf-8").read()
    for tag, fn in (("SEEDS", seeds), ("FINDINGS", findings), ("EVIDENCE", evidence), ("THOROUGH", thorough)):
        s = re.sub(r"<!-- BEGIN %s -->.*?<!-- END %s -->" % (tag, tag), lambda m: "<!-- BEGIN %s -->\n%s\n<!-- END %s -->" % (tag, fn(), tag), s, flags=re.S)
    open(p, "w", encoding="utf-8").write(s)
main()
