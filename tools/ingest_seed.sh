#!/bin/bash
# tools/ingest_seed.sh <PROP> <worktree> : copies patch.diff/demo.py/notes.txt of a sub-agent's scratch worktree into
# seeded/<PROP>-<next>/, writes meta.json (detected: pending), removes the worktree, and prints the new directory.
set -eu
P=$1; W=$2
cd /verif
n=1; while [ -e seeded/$P-$n ]; do n=$((n+1)); done
D=seeded/$P-$n; mkdir -p $D
git -C "$W" diff -- vyxal > $D/patch.diff
[ -s $D/patch.diff ] || cp "$W/patch.diff" $D/patch.diff
cp "$W/demo.py" $D/demo.py
cp "$W/notes.txt" $D/notes.txt 2>/dev/null || echo "(no notes)" > $D/notes.txt
python3 - "$P" "$D" <<'E'
import json, sys
P, D = sys.argv[1:3]
json.dump({"property": P, "breaks": P,
  "source": "independent sub-agent given only the property text and a scratch worktree",
  "needs_to_manifest": open(D + "/notes.txt", encoding="utf-8").read().strip(),
  "confirmed_by_me": "tools/seedtest.sh %s %s: scratch copy of /repo HEAD + patch: 392 tests pass, demo.py exits 0 on the clean copy and non-zero with the patch; then ./check %s run against the patched copy (VERIF_REPO)" % (P, D, P),
  "detected": "pending"}, open(D + "/meta.json", "w", encoding="utf-8"), indent=1, ensure_ascii=False)
E
git -C /repo worktree remove --force "$W"
echo $D
