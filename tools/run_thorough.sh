#!/bin/bash
# tools/run_thorough.sh ID... : runs the thorough tier of each check once, end to end, on /repo; evidence goes to evidence_thorough/
cd /verif
mkdir -p evidence_thorough thorough_logs
for id in "$@"; do
  s=$(date +%s)
  VERIF_EVIDENCE_DIR=/verif/evidence_thorough ./check $id --tier thorough > thorough_logs/$id.log 2>&1; rc=$?
  e=$(date +%s)
  echo "$id rc=$rc $((e-s))s $(grep -E 'tier=' thorough_logs/$id.log | tail -1)" >> thorough_logs/SUMMARY.txt
done
