#!/usr/bin/env python3
"""tools/save_seed.py PROP SRC_DIR NAME CAUGHT_BY  -> /verif/seeded/NAME/{patch.diff,demo.py,notes.txt,meta.json}"""
import json, os, shutil, sys
prop, src, name, caught = sys.argv[1:5]
dst = os.path.join("/verif/seeded", name)
os.makedirs(dst, exist_ok=True)
for f in ("patch.diff", "demo.py", "notes.txt"):
    if os.path.exists(os.path.join(src, f)):
        shutil.copy(os.path.join(src, f), os.path.join(dst, f))
notes = open(os.path.join(dst, "notes.txt")).read() if os.path.exists(os.path.join(dst, "notes.txt")) else ""
meta = {"property": prop, "breaks": prop, "source": "independent sub-agent given only the property text and a scratch worktree",
        "needs_to_manifest": notes.strip(),
        "confirmed_by_me": "tools/seedtest.sh %s seeded/%s: scratch copy of /repo HEAD + patch: 392 tests pass, demo.py exits 0 on the clean copy and non-zero with the patch; then ./check %s run against the patched copy (VERIF_REPO)" % (prop, name, prop),
        "detected": caught}
json.dump(meta, open(os.path.join(dst, "meta.json"), "w"), indent=1, ensure_ascii=False)
