import sys, re, json, warnings
warnings.filterwarnings("ignore")
from hlib.common import *
from hlib.yamlite import read_elements
docs = read_elements('/repo/documents/knowledge/elements.yaml')
vec = [d for d in docs if d['vectorise']]
print(len(docs), len(vec))
def is_list(x): return isinstance(x,(list,LazyList))
def model(args):
    if not any(is_list(a) for a in args): return ["spy"]+list(args)
    n=max(len(a) for a in args if is_list(a))
    return [model([(a[i] if i<len(a) else 0) if is_list(a) else a for a in args]) for i in range(n)]
def mkspy(name, arity, real):
    if arity==1:
        def spy(lhs, ctx=None):
            return ["spy",lhs] if not is_list(lhs) else real(lhs, ctx=ctx)
    elif arity==2:
        def spy(lhs, rhs, ctx=None):
            return ["spy",lhs,rhs] if not (is_list(lhs) or is_list(rhs)) else real(lhs,rhs,ctx=ctx)
    else:
        def spy(lhs, rhs, other, ctx=None):
            return ["spy",lhs,rhs,other] if not (is_list(lhs) or is_list(rhs) or is_list(other)) else real(lhs,rhs,other,ctx=ctx)
    spy.__name__=name
    return spy
res={}
for d in vec:
    k=d['element']
    if k not in E.elements: res[k]="not in table"; continue
    t,a=E.elements[k]
    m=re.fullmatch(r"(?:(?:third, )?(?:rhs, )?lhs|_) = pop\(stack, \d, ctx\); stack\.append\((\w+)\((?:lhs(?:, rhs)?(?:, third)?|)(?:, )?ctx=ctx\)\)", t)
    if not m: res[k]="hand template: "+t[:80]; continue
    fn=m.group(1); real=getattr(E,fn)
    spy=mkspy(fn,a,real)
    setattr(E,fn,spy)
    ok=True; why=""
    try:
        L1=[1,2,3]; L2=[4,5]; N=[[1,2],[3]]
        cases = {1:[[L1],[N],[[]]], 2:[[L1,7],[7,L1],[L1,L2],[L2,L1],[N,7],[N,L2],[[],L1]], 3:[[L1,7,8],[7,L1,8],[7,8,L1],[L1,L2,8]]}[a]
        for args in cases:
            for lazy in (False,True):
                aa=[LazyList(iter(x)) if (lazy and isinstance(x,list)) else x for x in args]
                ctx=Context()
                try:
                    got=force(spy(*aa,ctx=ctx))
                except Exception as e:
                    got="EXC %s"%type(e).__name__
                if got!=model(args):
                    ok=False; why="%r -> %r want %r"%(args,got,model(args)); break
            if not ok: break
    finally:
        setattr(E,fn,real)
    res[k]=("OK %s/%d"%(fn,a)) if ok else ("NOT elementwise %s/%d: %s"%(fn,a,why[:150]))
for k,v in res.items(): print(repr(k),v)
print(sum(1 for v in res.values() if v.startswith("OK")))
