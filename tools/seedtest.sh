#!/bin/bash
# tools/seedtest.sh <PROP> <dir-with-patch.diff-and-demo.py> [check args...]
# Confirms a seeded change in a scratch copy of /repo (tests pass, demo fails with / passes without), then runs ./check <PROP> against it.
set -u
P=$1; D=$(readlink -f "$2"); shift 2
S=$(mktemp -d /tmp/sw_${P}_XXXX)
trap 'rm -rf "$S" /tmp/ev_$$' EXIT
git -C /repo archive HEAD | tar -x -C "$S"
cd "$S"
( /venv/bin/python demo.py >/dev/null 2>&1 < /dev/null; true )
cp "$D/demo.py" "$S/demo.py"
/venv/bin/python demo.py > /tmp/ev_$$.demo0 2>&1 < /dev/null; R0=$?
git init -q . >/dev/null 2>&1; 
if ! git apply "$D/patch.diff" 2>/tmp/ev_$$.apply; then echo "SEED $P $D: patch does not apply: $(cat /tmp/ev_$$.apply | head -3)"; exit 2; fi
/venv/bin/python demo.py > /tmp/ev_$$.demo1 2>&1 < /dev/null; R1=$?
T=$(/venv/bin/python -m pytest -q -p no:cacheprovider -x 2>&1 < /dev/null | tail -1)
echo "SEED $P $D: demo clean rc=$R0, demo patched rc=$R1, tests: $T"
cd /verif
mkdir -p /tmp/ev_$$
VERIF_REPO="$S" VERIF_EVIDENCE_DIR=/tmp/ev_$$ ./check "$P" "$@" 2>&1 | grep -v "^  obligation" | tail -${SEED_TAIL:-6}
echo "check exit=${PIPESTATUS[0]}"
rm -f /tmp/ev_$$.demo0 /tmp/ev_$$.demo1 /tmp/ev_$$.apply
