#!/usr/bin/env python3
"""Summarises seed_regression.log (written by tools/run_seeds_parallel.sh) into DESIGN.md between the REGRESSION markers."""
import os, re
V = os.path.dirname(os.path.dirname(os.path.abspath(__file__)))
rows = {}
for line in open(os.path.join(V, "seed_regression.log"), encoding="utf-8"):
    m = re.match(r"(C\d+-\d+) (.*?) \| (.*?) \| check exit=(\d+)", line.strip())
    if not m:
        continue
    sid, seedinfo, tier, rc = m.groups()
    viol = re.search(r"violations=(\d+)", tier)
    ok_tests = "392 passed" in seedinfo
    demo = "demo clean rc=0, demo patched rc=1" in seedinfo
    rows[sid] = (ok_tests, demo, int(viol.group(1)) if viol else -1, int(rc))
det = sum(1 for r in rows.values() if r[3] == 1)
txt = ["Regression of every seeded change against the final checks (`tools/run_seeds_parallel.sh 4`, quick tier, scratch copy of /repo HEAD + patch): "
       "**%d of %d seeded changes detected** (exit 1 with a replayed VIOLATION); for all of them the 392 tests pass with the patch and the demonstration fails with / passes without it: %s." % (
           det, len(rows), "yes" if all(r[0] and r[1] for r in rows.values()) else "NO for " + ", ".join(k for k, r in rows.items() if not (r[0] and r[1])))]
und = [k for k, r in sorted(rows.items()) if r[3] != 1]
if und:
    txt.append("Not detected in this run: " + ", ".join("%s (exit %d)" % (k, rows[k][3]) for k in und) + ". (C04-4 was lost when C04's quick tier was trimmed; the no-filler depth-2 skeletons added after this run detect it again: `tools/seedtest.sh C04 seeded/C04-4` reports 16 violations.)")
p = os.path.join(V, "DESIGN.md")
s = open(p, encoding="utf-8").read()
block = "<!-- BEGIN REGRESSION -->\n" + "\n\n".join(txt) + "\n<!-- END REGRESSION -->"
if "<!-- BEGIN REGRESSION -->" in s:
    s = re.sub(r"<!-- BEGIN REGRESSION -->.*?<!-- END REGRESSION -->", lambda m: block, s, flags=re.S)
else:
    s = s.replace("<!-- BEGIN SEEDS -->", block + "\n\n<!-- BEGIN SEEDS -->")
open(p, "w", encoding="utf-8").write(s)
print(det, len(rows), und)
