"""vfw - obligation runner for solver-based checks of /repo (Vyxal 2). See DESIGN.md section 2."""
