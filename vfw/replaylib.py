"""Concrete replay of one harness function on the real code (no solver)."""
import re
import sys
import traceback
import types


def load_source(src, name="vh_replay"):
    mod = types.ModuleType(name)
    mod.__file__ = "<replay>"
    sys.modules[name] = mod
    exec(compile(src, "<harness>", "exec"), mod.__dict__)
    return mod


def preconditions(fn):
    doc = fn.__doc__ or ""
    return [m.group(1).strip() for m in re.finditer(r"^\s*pre:\s*(.*)$", doc, re.M)]


def run(src, fn_name, args, check_pre=True, verbose=True):
    """returns 1 if the failure reproduces, 0 if the function returns truthy, 2 if a precondition is false"""
    import warnings

    warnings.filterwarnings("ignore")
    sys.setrecursionlimit(6000)
    mod = load_source(src)
    fn = getattr(mod, fn_name)
    if check_pre:
        for pre in preconditions(fn):
            env = dict(mod.__dict__)
            env.update(args)
            try:
                ok = eval(pre, env)
            except Exception as e:  # noqa
                ok = False
            if not ok:
                if verbose:
                    print("replay: precondition not met:", pre)
                return 2
    try:
        ret = fn(**args)
    except Exception:  # noqa
        if verbose:
            print("replay: REPRODUCED (exception)")
            traceback.print_exc()
        return 1
    if not ret:
        if verbose:
            print("replay: REPRODUCED (harness returned %r for %r)" % (ret, args))
            try:
                import hlib.common as _hc

                expl = _hc._EXPLAIN
            except Exception:  # noqa
                expl = None
            if expl:
                print("replay: detail:", expl[-1])
        return 1
    if verbose:
        print("replay: did not reproduce (harness returned %r)" % (ret,))
    return 0
