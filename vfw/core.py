"""Obligation model, scheduling, replay, known findings, evidence, exit codes (DESIGN.md 2.2-2.3)."""
from __future__ import annotations

import dataclasses
import hashlib
import json
import os
import re
import shutil
import subprocess
import sys
import tempfile
import time
from concurrent.futures import ThreadPoolExecutor
from dataclasses import dataclass, field

VERIF = os.path.dirname(os.path.dirname(os.path.abspath(__file__)))
REPO = os.environ.get("VERIF_REPO", "/repo")
PY = os.path.join(VERIF, ".venv", "bin", "python")
NPROC = int(os.environ.get("VERIF_JOBS", os.cpu_count() or 4))
EXIT_OK, EXIT_VIOLATION, EXIT_HARNESS = 0, 1, 3


@dataclass
class Ob:
    oid: str  # unique within the property
    family: str  # harness family (known findings and twins are per family)
    module: str  # key into Plan.modules
    fn: str  # function name inside that module
    timeout: float = 60.0  # CrossHair per-condition timeout (CPU seconds)
    expect: str = "confirmed"  # "refuted" for reachability twins
    desc: str = ""
    bounds: str = ""


@dataclass
class Plan:
    prop: str
    level: str = "model_checking"
    modules: dict = field(default_factory=dict)  # name -> python source
    obs: list = field(default_factory=list)
    functions_encoded: list = field(default_factory=list)
    assumptions: list = field(default_factory=list)
    rule: str = ""
    outside: list = field(default_factory=list)
    batch: int = 4
    inconclusive_ceiling: float = 0.5
    post_steps: list = field(default_factory=list)  # callables(ctx) -> dict(validated=int, notes=[...], violations=[(what, replay_src)], errors=[...])
    extra_coverage: dict = field(default_factory=dict)
    require_ok_marker: bool = False  # a confirmed obligation must have at least one path that called path_ok()


def fn_src(name, params, pres, body, post="_"):
    """Render one harness function. params: 'a: int, b: str'. body: list of lines or str."""
    if isinstance(body, str):
        body = body.strip("\n").split("\n")
    doc = ['    """']
    for p in pres:
        doc.append("    pre: " + p)
    doc.append("    post: " + post)
    doc.append('    """')
    return "\n".join(["def %s(%s) -> bool:" % (name, params)] + doc + ["    " + l for l in body]) + "\n\n"


def load_known(prop):
    path = os.path.join(VERIF, "known_findings.json")
    if not os.path.exists(path):
        return []
    data = json.load(open(path))
    return [e for e in data.get("findings", []) if e.get("property") == prop]


def known_exclusions(known, family):
    """Predicates (over harness args) of *known* (not fixed) findings that apply to this family."""
    out = []
    for e in known:
        if e.get("status") != "known":
            continue
        for ex in e.get("exclude", []):
            if re.fullmatch(ex["family"], family):
                out.append(ex["predicate"])
    return out


def _run_worker(spec_path, wall):
    env = dict(os.environ)
    env["PYTHONPATH"] = REPO + os.pathsep + VERIF
    env["PYTHONHASHSEED"] = "0"
    try:
        p = subprocess.run(
            [PY, "-m", "vfw.worker", spec_path],
            stdin=subprocess.DEVNULL,
            stdout=subprocess.PIPE,
            stderr=subprocess.PIPE,
            timeout=wall,
            env=env,
            cwd=VERIF,
        )
        out, err, killed = p.stdout.decode("utf8", "replace"), p.stderr.decode("utf8", "replace"), False
    except subprocess.TimeoutExpired as e:
        out = (e.stdout or b"").decode("utf8", "replace")
        err = (e.stderr or b"").decode("utf8", "replace")
        killed = True
    results = {}
    for line in out.splitlines():
        if line.startswith("RESULT "):
            r = json.loads(line[7:])
            results[r["oid"]] = r
    return results, err[-3000:], killed


def run_obligations(plan, work):
    """Runs every obligation of the plan under CrossHair, 16 worker processes; returns oid -> result."""
    paths = {}
    for name, src in plan.modules.items():
        p = os.path.join(work, "h_%s_%s.py" % (plan.prop.lower(), name))
        with open(p, "w") as f:
            f.write(src)
        paths[name] = p
    load = 1.0
    try:
        load = max(1.0, os.getloadavg()[0] / max(1, NPROC))
    except OSError:
        pass
    results = {}
    pending = sorted(plan.obs, key=lambda o: -o.timeout)
    for rnd in range(3):
        if not pending:
            break
        claim_dir = os.path.join(work, "claims%d" % rnd)
        os.makedirs(claim_dir)
        spec = os.path.join(work, "spec_%d.json" % rnd)
        json.dump(
            {"claim_dir": claim_dir, "load": load, "obs": [{"oid": o.oid, "module_path": paths[o.module], "fn": o.fn, "timeout": o.timeout} for o in pending]},
            open(spec, "w"),
        )
        nw = max(1, min(NPROC, len(pending)))
        wall = (sum(o.timeout for o in pending) * 3.0 / nw + max(o.timeout for o in pending) * 3.0 + 180) * load
        errs = []
        with ThreadPoolExecutor(max_workers=nw) as ex:
            for res, err, killed in ex.map(lambda _: _run_worker(spec, wall), range(nw)):
                results.update(res)
                if err.strip():
                    errs.append(err)
        claimed = set(os.listdir(claim_dir))
        nxt = []
        for i, o in enumerate(pending):
            if o.oid in results:
                continue
            if "c%d" % i in claimed:
                results[o.oid] = {"oid": o.oid, "fn": o.fn, "verdict": "inconclusive", "why": "worker process died while running this obligation (stack overflow / out of memory?): " + (errs[-1][-300:] if errs else ""),
                                  "paths": 0, "solver_checks": 0, "solver_s": 0.0, "wall_s": 0.0}
            else:
                nxt.append(o)
        pending = nxt
    for o in pending:
        results[o.oid] = {"oid": o.oid, "fn": o.fn, "verdict": "inconclusive", "why": "never scheduled (workers died)", "paths": 0, "solver_checks": 0, "solver_s": 0.0, "wall_s": 0.0}
    return results


REPLAY_TMPL = '''#!/usr/bin/env python
# Replay of a counterexample for property {prop}, obligation {oid} ({desc}).
# Runs the harness body WITHOUT the solver on the real modules of /repo.
# exit 1 = the failure reproduces; 0 = it does not; 2 = precondition false.
import sys
sys.path[:0] = [{repo!r}, {verif!r}]
SRC = {src!r}
FN = {fn!r}
ARGS = {args}
if __name__ == "__main__":
    from vfw.replaylib import run
    sys.exit(run(SRC, FN, ARGS))
'''


def write_replay(plan, ob, args_repr):
    d = os.path.join(VERIF, "replays", plan.prop)
    os.makedirs(d, exist_ok=True)
    h = hashlib.sha1((ob.oid + args_repr).encode()).hexdigest()[:10]
    path = os.path.join(d, "%s-%s.py" % (re.sub(r"[^A-Za-z0-9_.-]", "_", ob.oid)[:60], h))
    with open(path, "w") as f:
        f.write(
            REPLAY_TMPL.format(
                prop=plan.prop, oid=ob.oid, desc=ob.desc.replace("\n", " "), repo=REPO, verif=VERIF, src=plan.modules[ob.module], fn=ob.fn, args=args_repr
            )
        )
    return path


def run_replay(path, timeout=300):
    env = dict(os.environ)
    env["PYTHONPATH"] = REPO + os.pathsep + VERIF
    try:
        p = subprocess.run([PY, path], stdin=subprocess.DEVNULL, stdout=subprocess.PIPE, stderr=subprocess.STDOUT, timeout=timeout, env=env, cwd=VERIF)
        return p.returncode, p.stdout.decode("utf8", "replace")[-3000:]
    except subprocess.TimeoutExpired:
        return 1, "replay timed out (a hang on the real code counts as reproduced)"


def run_demo(code, timeout=120):
    """Runs a known-finding demonstration (python statements that set `result`) on the real code."""
    prog = "import sys, warnings; warnings.filterwarnings('ignore'); sys.path[:0]=[%r,%r]\n" % (REPO, VERIF) + code + "\nsys.exit(7 if result else 0)\n"
    try:
        p = subprocess.run([PY, "-c", prog], stdin=subprocess.DEVNULL, stdout=subprocess.PIPE, stderr=subprocess.STDOUT, timeout=timeout, cwd=VERIF)
        return p.returncode == 7, p.stdout.decode("utf8", "replace")[-1000:]
    except subprocess.TimeoutExpired:
        return False, "demo timed out"


def execute(plan, tier, seed):
    """Runs a plan end to end; prints KNOWN-FINDING / VIOLATION lines; writes evidence; returns exit code."""
    t0 = time.time()
    work = tempfile.mkdtemp(prefix="verif_%s_" % plan.prop.lower())
    lines = []
    violations, harness_errors, notes = [], [], []
    validated = 0
    try:
        known = load_known(plan.prop)
        for e in known:
            if e.get("status") == "known" and e.get("demo"):
                ok, out = run_demo(e["demo"])
                validated += 1
                if ok:
                    print("KNOWN-FINDING: property=%s %s [%s]" % (plan.prop, e["what"], e["id"]), flush=True)
                else:
                    notes.append("known finding %s no longer reproduces (%s)" % (e["id"], out.strip()[-200:]))
                    print("note: known finding %s no longer reproduces" % e["id"], flush=True)
        results = run_obligations(plan, work)
        if plan.require_ok_marker:
            for ob in plan.obs:
                r = results[ob.oid]
                if isinstance(plan.require_ok_marker, (set, frozenset, list, tuple)) and ob.family not in plan.require_ok_marker:
                    continue
                if ob.expect == "confirmed" and r["verdict"] == "confirmed" and "'ok'" not in r.get("witnesses", []):
                    r["verdict"] = "inconclusive"
                    r["why"] = "vacuous: no explored path ran the program to its normal end"
        counts = {"confirmed": 0, "refuted": 0, "inconclusive": 0, "error": 0}
        twins_ok = twins_bad = twins_inc = 0
        main_total = main_conf = main_inc = 0
        to_replay = []
        for ob in plan.obs:
            r = results[ob.oid]
            v = r["verdict"]
            counts[v] = counts.get(v, 0) + 1
            if ob.expect == "refuted":
                if v == "refuted":
                    twins_ok += 1
                elif v == "confirmed":
                    twins_bad += 1
                    harness_errors.append("vacuity twin %s was CONFIRMED: family %s does not reach its assertion" % (ob.oid, ob.family))
                elif v == "error":
                    harness_errors.append("twin %s: %s" % (ob.oid, r.get("why")))
                else:
                    twins_inc += 1
                    notes.append("twin %s inconclusive: %s" % (ob.oid, r.get("why")))
                continue
            main_total += 1
            if v == "confirmed":
                main_conf += 1
            elif v == "inconclusive":
                main_inc += 1
                notes.append("inconclusive %s: %s" % (ob.oid, r.get("why")))
            elif v == "error":
                harness_errors.append("obligation %s: %s" % (ob.oid, r.get("why")))
            elif v == "refuted":
                if not r.get("cex_args_repr"):
                    harness_errors.append("obligation %s refuted but arguments not recoverable: %s" % (ob.oid, r.get("cex_message")))
                    continue
                to_replay.append((ob, r, write_replay(plan, ob, r["cex_args_repr"])))
        with ThreadPoolExecutor(max_workers=NPROC) as ex:
            outs = list(ex.map(lambda t: run_replay(t[2]), to_replay))
        for (ob, r, path), (rc, out) in zip(to_replay, outs):
            validated += 1
            if rc == 1:
                violations.append((ob, r, path))
            else:
                harness_errors.append("counterexample of %s did not reproduce on the real code (rc=%s): %s %s" % (ob.oid, rc, r["cex_args_repr"], out[-300:]))
                os.remove(path)
        if os.environ.get("VERIF_DEBUG"):
            json.dump(results, open(os.environ["VERIF_DEBUG"], "w"), indent=1)
        ctx = {"plan": plan, "tier": tier, "seed": seed, "work": work, "results": results}
        post_cov = {}
        for step in plan.post_steps:
            out = step(ctx) or {}
            validated += int(out.get("validated", 0))
            notes += out.get("notes", [])
            harness_errors += out.get("errors", [])
            for what, src in out.get("violations", []):
                d = os.path.join(VERIF, "replays", plan.prop)
                os.makedirs(d, exist_ok=True)
                h = hashlib.sha1(src.encode()).hexdigest()[:10]
                p = os.path.join(d, "concrete-%s.py" % h)
                open(p, "w").write(src)
                violations.append((None, {"cex_message": what}, p))
            post_cov.update(out.get("coverage", {}))
        for ob, r, path in violations:
            print("VIOLATION property=%s replay=%s" % (plan.prop, path), flush=True)
            print("  obligation=%s %s" % (ob.oid if ob else "concrete", (r.get("cex_args_repr") or r.get("cex_message") or "")[:500]), flush=True)
        for h in harness_errors:
            print("HARNESS-ERROR: " + h[:1500], flush=True)
        inc_frac = (main_inc / main_total) if main_total else 0.0
        if main_total and inc_frac > plan.inconclusive_ceiling:
            harness_errors.append("too many inconclusive obligations: %d of %d" % (main_inc, main_total))
            print("HARNESS-ERROR: " + harness_errors[-1], flush=True)
        paths = sum(r.get("paths", 0) for r in results.values())
        checks = sum(r.get("solver_checks", 0) for r in results.values())
        solver_s = sum(r.get("solver_s", 0.0) for r in results.values())
        samples = []
        for ob in plan.obs[: 400]:
            r = results[ob.oid]
            if len(samples) < 12 and (ob.expect == "confirmed"):
                samples.append({"obligation": ob.oid, "family": ob.family, "what": ob.desc, "bounds": ob.bounds, "verdict": r["verdict"], "paths": r.get("paths"), "solver_s": r.get("solver_s"), "wall_s": r.get("wall_s")})
        slow = sorted(plan.obs, key=lambda o: -results[o.oid].get("wall_s", 0))[:3]
        for ob in slow:
            r = results[ob.oid]
            samples.append({"obligation": ob.oid, "what": ob.desc, "bounds": ob.bounds, "verdict": r["verdict"], "paths": r.get("paths"), "wall_s": r.get("wall_s"), "note": "slowest"})
        cov = {
            "states": max(paths, 0),
            "transitions": max(checks, 0),
            "traces_validated_against_impl": validated,
            "samples": samples,
            "obligations": main_total,
            "discharged": main_conf,
            "inconclusive": main_inc,
            "refuted": len(violations),
            "vacuity_twins": {"refuted_as_required": twins_ok, "wrongly_confirmed": twins_bad, "inconclusive": twins_inc},
            "rule": plan.rule,
            "functions_encoded": plan.functions_encoded,
            "outside_claim": plan.outside,
            "solver_s": round(solver_s, 2),
            "engine": "CrossHair 0.0.110 (symbolic execution, z3 %s); states = execution paths explored, transitions = z3 check() calls" % _z3v(),
            "families": sorted({o.family for o in plan.obs}),
            "inconclusive_detail": [n for n in notes][:40],
            "harness_errors": harness_errors[:20],
        }
        cov.update(plan.extra_coverage)
        cov.update(post_cov)
        if plan.level == "translation_validation":
            cov.setdefault("programs", plan.extra_coverage.get("programs", main_conf))
            cov.setdefault("disagreements_checked", validated)
        ev = {
            "property_id": plan.prop,
            "tier": tier,
            "seed": int(seed),
            "level": plan.level,
            "coverage": cov,
            "assumptions": plan.assumptions,
            "wall_s": round(time.time() - t0, 2),
            "violations": len(violations),
        }
        evdir = os.environ.get("VERIF_EVIDENCE_DIR") or os.path.join(VERIF, "evidence")
        os.makedirs(evdir, exist_ok=True)
        with open(os.path.join(evdir, plan.prop + ".json"), "w") as f:
            json.dump(ev, f, indent=1, ensure_ascii=False)
        print(
            "%s tier=%s obligations=%d confirmed=%d inconclusive=%d violations=%d twins=%d/%d paths=%d solver_checks=%d solver_s=%.1f wall=%.1fs"
            % (plan.prop, tier, main_total, main_conf, main_inc, len(violations), twins_ok, twins_ok + twins_bad + twins_inc, paths, checks, solver_s, time.time() - t0),
            flush=True,
        )
        if violations:
            return EXIT_VIOLATION
        if harness_errors:
            return EXIT_HARNESS
        return EXIT_OK
    finally:
        shutil.rmtree(work, ignore_errors=True)


def _z3v():
    try:
        import z3

        return z3.get_version_string()
    except Exception:  # noqa
        return "?"
