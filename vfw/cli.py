import argparse
import importlib
import os
import subprocess
import sys


def main():
    ap = argparse.ArgumentParser()
    ap.add_argument("prop", nargs="?")
    ap.add_argument("--tier", default=os.environ.get("VERIF_TIER", "quick"))
    ap.add_argument("--replay")
    ap.add_argument("--only", help="regex on obligation ids (debugging; evidence is still written)")
    a = ap.parse_args()
    if a.replay:
        sys.exit(subprocess.call([sys.executable, a.replay], stdin=subprocess.DEVNULL))
    from vfw import core

    seed = int(os.environ.get("VERIF_SEED", "0") or 0)
    tier = a.tier if a.tier in ("quick", "thorough") else "quick"
    mod = importlib.import_module("props." + a.prop.lower())
    plan = mod.build(tier, seed, core.load_known(a.prop.upper()))
    if a.only:
        import re

        plan.obs = [o for o in plan.obs if re.search(a.only, o.oid)]
    sys.exit(core.execute(plan, tier, seed))


if __name__ == "__main__":
    main()
