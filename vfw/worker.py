"""Worker: runs a batch of CrossHair obligations from one generated harness module.

usage: python -m vfw.worker <spec.json>
spec: {"claim_dir": ..., "load": f, "obs": [{"oid":..., "module_path":..., "fn":..., "timeout":...}, ...]}
Every worker walks the same list and claims obligations through O_EXCL files (dynamic load balancing).
Prints one JSON line per finished obligation (prefixed by "RESULT ") on stdout.
stdin must be closed by the caller (get_input falls through to input()).
"""
import collections
import importlib.util
import json
import os
import re
import sys
import time
import traceback
import warnings

warnings.filterwarnings("ignore")
sys.setrecursionlimit(6000)


def _load(path):
    name = "vh_" + os.path.basename(path)[:-3]
    spec = importlib.util.spec_from_file_location(name, path)
    mod = importlib.util.module_from_spec(spec)
    sys.modules[name] = mod
    spec.loader.exec_module(mod)
    return mod


SOLVER = {"checks": 0, "secs": 0.0}


def _instrument_z3():
    import z3

    orig = z3.Solver.check

    def check(self, *a, **k):
        t = time.perf_counter()
        try:
            return orig(self, *a, **k)
        finally:
            SOLVER["checks"] += 1
            SOLVER["secs"] += time.perf_counter() - t

    z3.Solver.check = check


def parse_call(fn, message):
    """Extract the concrete call arguments CrossHair printed ("... when calling f(1, 'a')")."""
    m = re.search(r"when calling (.*)$", message, re.S)
    if not m:
        return None
    text = m.group(1)
    text = re.sub(r"\s*\(which (returns|raises) .*\)\s*$", "", text, flags=re.S)
    import inspect

    cap = {}

    def capture(*a, **k):
        cap["args"] = inspect.signature(fn).bind(*a, **k).arguments

    env = {fn.__name__: capture, "float": float, "nan": float("nan"), "inf": float("inf")}
    try:
        eval(text, env)
    except Exception:
        return None
    return {k: v for k, v in cap.get("args", {}).items()}


def claim(claim_dir, oid_index):
    try:
        fd = os.open(os.path.join(claim_dir, "c%d" % oid_index), os.O_CREAT | os.O_EXCL | os.O_WRONLY)
        os.close(fd)
        return True
    except FileExistsError:
        return False


CURRENT = {"ob": None, "t0": 0.0, "limit": 0.0}


def _watchdog():
    import threading

    def loop():
        while True:
            time.sleep(2)
            ob = CURRENT["ob"]
            if ob is not None and time.time() - CURRENT["t0"] > CURRENT["limit"]:
                res = {"oid": ob["oid"], "fn": ob["fn"], "verdict": "inconclusive", "why": "watchdog: wall limit %.0fs exceeded" % CURRENT["limit"],
                       "paths": 0, "solver_checks": 0, "solver_s": 0.0, "wall_s": round(time.time() - CURRENT["t0"], 1)}
                sys.stdout.write("RESULT " + json.dumps(res) + "\n")
                sys.stdout.flush()
                os._exit(9)

    threading.Thread(target=loop, daemon=True).start()


def main():
    spec = json.load(open(sys.argv[1]))
    _instrument_z3()
    from crosshair.core_and_libs import AnalysisKind, analyze_function, run_checkables
    from crosshair.options import AnalysisOptionSet

    _watchdog()
    mods = {}
    for idx, ob in enumerate(spec["obs"]):
        if not claim(spec["claim_dir"], idx):
            continue
        CURRENT.update(ob=ob, t0=time.time(), limit=float(ob["timeout"]) * 1.5 * spec.get("load", 1.0) + 60)
        res = {"oid": ob["oid"], "fn": ob["fn"]}
        stats = collections.Counter()
        c0, s0 = SOLVER["checks"], SOLVER["secs"]
        t0 = time.time()
        try:
            if ob["module_path"] not in mods:
                mods[ob["module_path"]] = _load(ob["module_path"])
            mod = mods[ob["module_path"]]
            fn = getattr(mod, ob["fn"])
            opts = AnalysisOptionSet(
                per_condition_timeout=float(ob["timeout"]),
                per_path_timeout=float(ob.get("path_timeout", ob["timeout"])),
                max_uninteresting_iterations=10**9,
                analysis_kind=[AnalysisKind.PEP316],
                report_all=True,
                report_verbose=False,
                stats=stats,
            )
            msgs = list(run_checkables(analyze_function(fn, opts)))
            states = [m.state.name for m in msgs]
            res["states"] = states
            res["messages"] = [m.message[:2000] for m in msgs]
            if not msgs:
                res["verdict"] = "inconclusive"
                res["why"] = "no message (no conditions found?)"
            elif any(s in ("POST_FAIL", "EXEC_ERR", "POST_ERR", "PRE_INVALID", "SYNTAX_ERR", "IMPORT_ERR") for s in states):
                bad = [m for m in msgs if m.state.name in ("POST_FAIL", "EXEC_ERR", "POST_ERR")]
                if bad:
                    res["verdict"] = "refuted"
                    res["cex_kind"] = bad[0].state.name
                    args = parse_call(fn, bad[0].message)
                    res["cex_args_repr"] = repr(args) if args is not None else None
                    res["cex_message"] = bad[0].message[:2000]
                else:
                    res["verdict"] = "error"
                    res["why"] = "; ".join(res["messages"])[:1000]
            elif all(s == "CONFIRMED" for s in states):
                res["verdict"] = "confirmed"
            elif "PRE_UNSAT" in states:
                res["verdict"] = "inconclusive"
                res["why"] = "unable to meet precondition"
            else:
                res["verdict"] = "inconclusive"
                res["why"] = ",".join(states)
            try:
                import hlib.common as _hc

                wl = _hc._WITNESSES
            except Exception:  # noqa
                wl = None
            if wl:
                res["witnesses"] = [repr(w) for w in wl[:400]]
                del wl[:]
        except BaseException as e:  # noqa
            res["verdict"] = "error"
            res["why"] = "worker exception: " + "".join(traceback.format_exception_only(type(e), e))[:1000]
        CURRENT["ob"] = None
        res["paths"] = int(stats.get("num_paths", 0))
        res["solver_checks"] = SOLVER["checks"] - c0
        res["solver_s"] = round(SOLVER["secs"] - s0, 3)
        res["wall_s"] = round(time.time() - t0, 3)
        print("RESULT " + json.dumps(res), flush=True)


if __name__ == "__main__":
    main()
